"""C35 SSH transport framing: packets are delivered intact under any segmentation; a failed MAC
verification or an insane declared length disconnects and nothing more is dispatched.

Engine E2: `SSHTransportBase` (sendPacket / getPacket / dataReceived / connectionMade) and `SSHCiphers`
(+ the `none` cipher classes) are recompiled from /repo's source onto LBytes.  Part A runs the REAL
`SSHCiphers(b"none", b"none", b"none", b"none")` that every connection uses before NEWKEYS.  Part B
replaces `currentEncryptions` by a model object (position dependent byte-wise stream cipher, block
size 8 / 16, tag function, verify outcome = symbolic bool per packet): the real ciphers and MACs are
C code (cryptography / hmac) and are NOT executed.  This twisted version has no encrypt-then-MAC and
no AEAD branch in getPacket/sendPacket (checked in the source), so the plain branch is the only one.
"""
from vlib import api, lbytes, lift
from vlib.api import H, cover
from vlib.lift import b, t

PROPERTY = "C35"
LEVEL = "model_checking"
ENCODED = ["twisted.conch.ssh.transport:SSHTransportBase.sendPacket",
           "twisted.conch.ssh.transport:SSHTransportBase.getPacket",
           "twisted.conch.ssh.transport:SSHTransportBase.dataReceived",
           "twisted.conch.ssh.transport:SSHTransportBase.connectionMade",
           "twisted.conch.ssh.transport:SSHCiphers"]
BOUNDS = {"quick": {"p": 2, "p2": 1, "v": 1, "ban": 1, "pad": 6, "ms": 4, "cuts": 1, "lcut": 9, "n": 18},
          "thorough": {"p": 3, "p2": 1, "v": 2, "ban": 2, "pad": 12, "ms": 16, "cuts": 2, "lcut": 64, "n": 70}}
B = {}
BOUNDS_TEXT = ("packets/framing: 1-2 packets, message number any 0..255, payload of 0..p (second packet 0..p2) symbolic "
               "bytes (all 256 values); random padding symbolic (first `pad` bytes of the random pool, rest 0x99); every "
               "cut position of the byte stream (packets: quick one cut for two packets / two cuts for one packet, "
               "thorough two cuts; framing: one cut); framing: model cipher block size 8 and 16, MAC size 0 and ms, "
               "verify outcome a symbolic bool per packet; padding: every payload length 0..n (first byte symbolic) "
               "with the real none cipher (block 8) and the model (block 16, MAC ms); version: banner shapes none / "
               "'<ban>anner!' / that plus '2nd line' / 'a<ban>SSH-b' with <= ban symbolic bytes, version line "
               "'SSH-2.0-' + 1..v symbolic bytes, CRLF or LF, one packet (payload 0..1 bytes) behind it, every cut "
               "position (two cuts: thorough, no banner), the 4 padding bytes symbolic when the whole stream is one "
               "delivery; badlength: arbitrary 4-byte declared "
               "length (all 2**32 values) in front of a 32+ms byte delivery cut at any position <= lcut")
OUTSIDE = ["the real ciphers (AES/3DES in CBC/CTR) and MACs (HMAC-*): C code in cryptography/OpenSSL/hmac, never "
           "executed here; that a real MAC rejects an altered packet is an ASSUMPTION, only the transport's reaction "
           "to verify() returning False is checked",
           "compression other than none (zlib is C code)",
           "key exchange, NEWKEYS switch-over, rekeying, blocking of non-kex messages during key exchange "
           "(sendKexInit is a no-op in the harness, _keyExchangeState stays NONE)",
           "message dispatch (dispatchMessage is replaced by a recorder) and the DISCONNECT packet that "
           "sendDisconnect would send (replaced by a recorder that calls transport.loseConnection())",
           "payloads with more than p symbolic bytes (longer ones only as 1 symbolic byte + constant filler up to n), "
           "more than two packets per connection, more than three deliveries, banner lines other than the four "
           "shapes in the bounds; peer version lines that are not 'SSH-2.0-...' (bad-version disconnect) and the "
           "4096 byte pre-version limit",
           "incoming packets whose padding-length byte is inconsistent with the declared length (getPacket does not "
           "validate it); only the two declared-length checks (> 1 MiB, not a multiple of the block size) are claimed",
           "data delivered after the transport asked to lose the connection (a real transport stops reading)",
           "the text of disconnect descriptions"]
ASSUMPTIONS = ["randbytes.secureRandom is an environment stub that returns the next bytes of a pool whose first "
               "bytes are symbolic (arbitrary) - in both worlds",
               "part B model of SSHCiphers: encrypt/decrypt add/subtract a position dependent key stream byte "
               "(stateful, like CTR/CBC chaining: decrypting a block twice or out of order garbles everything after "
               "it); makeMAC(seq, data) is a stub tag over seq, length and selected plaintext bytes; verify(seq, data, "
               "mac) returns (mac == makeMAC(seq, data)) and <symbolic bool of that packet>, i.e. it is arbitrary "
               "except that it never accepts a tag that is not makeMAC's own output for the same sequence number "
               "and plaintext; block sizes 8 (3des, none) and 16 (aes); MAC sizes 0, 4 (quick) and 16 (thorough) stand "
               "for the real digest sizes 16..64 (getPacket only uses the size as a slice length)",
               "the sender emits the smallest legal padding (4 <= padding < 4 + block size): twisted's documented "
               "behaviour (test_sendPacketPlain), stricter than RFC 4253 which allows up to 255",
               "f-string interpolation of a symbolic int in an error description yields the placeholder '<n>' in the "
               "lifted world (descriptions are not observed)",
               "`_kex.getSupportedKeyExchanges` is replaced by an empty list while the class body is lifted (the "
               "class attributes computed from it are not used by the encoded methods)",
               "LBytes / struct shim reproduce bytes / struct semantics (vlib.lbytes.selftest, every run) and the "
               "lifted transport agrees with the real one on the concrete vectors"]
EXPLANATION = ("lifted real SSH packet framing on symbolic payload/padding text, cut positions case-split; sender "
               "output compared with an independent RFC 4253 section 6 encoder, receiver dispatch compared with the "
               "payloads sent; symbolic verify outcome drives the MAC-failure control flow")

lbytes.NORMALISE = True
lbytes.FAST_SCAN = True

from twisted.conch.ssh import transport as _real  # noqa: E402


# ---- environment stubs ---------------------------------------------------------------------------

class _Rand:
    """randbytes stand-in: secureRandom(n) = next n bytes of `pool` (then 0x99 filler)"""

    def __init__(self):
        self.pool = ""
        self.pos = 0
        self.asked = []

    def reset(self, pool):
        self.pool = pool
        self.pos = 0
        self.asked = []

    def secureRandom(self, n):
        self.asked.append(n)
        txt = self.take(n)
        return b(txt)

    def take(self, n):
        txt = self.pool[self.pos:self.pos + n]
        self.pos += n
        if len(txt) < n:
            txt = txt + "\x99" * (n - len(txt))
        return txt


_RAND = _Rand()


class _KexStub:
    @staticmethod
    def getSupportedKeyExchanges():
        return []


def _network_string(s):
    return lbytes.LBytes(s)


def _ord(x):
    if isinstance(x, lbytes._LBase):
        if len(x.s) != 1:
            raise TypeError("ord() expected a character, but string of length %d found" % len(x.s))
        return ord(x.s)
    return ord(x)


def _fval(v, conversion, spec):
    if isinstance(v, int) and not lbytes._is_conc(v):
        return "<n>"
    return lbytes.l_fval(v, conversion, spec)


L = lift.lift("twisted.conch.ssh.transport",
              names=["SSHCiphers", "SSHTransportBase", "_NullEncryptionContext", "_DummyAlgorithm", "_DummyCipher"],
              overrides={"randbytes": _RAND, "networkString": _network_string, "_kex": _KexStub},
              extra_shims={"ord": _ord, "_vl_fval": _fval}, fstrings=True, encode_calls=True)
if L.__real__:
    _real.randbytes = _RAND

MAC_ERROR = _real.DISCONNECT_MAC_ERROR
PROTOCOL_ERROR = _real.DISCONNECT_PROTOCOL_ERROR


class _FakeT:
    """the byte transport under the SSH transport"""

    def __init__(self):
        self.out = []
        self.disconnecting = False

    def write(self, data):
        self.out.append(t(data))

    def loseConnection(self):
        self.disconnecting = True


class _Rec(L.SSHTransportBase):
    """real (lifted) transport with recorders at its outer edges"""

    def sendKexInit(self):
        return None

    def dispatchMessage(self, messageNum, payload):
        self.got.append((messageNum, t(payload)))
        self.seqs.append(self.incomingPacketSequence)

    def sendDisconnect(self, reason, desc):
        self.disc.append(reason)
        self.transport.loseConnection()


def _new():
    p = _Rec()
    p.got = []
    p.seqs = []
    p.disc = []
    p.makeConnection(_FakeT())
    return p


class _Model:
    """part B stand-in for SSHCiphers (see ASSUMPTIONS)"""

    def __init__(self, bs, ms, verdicts):
        self.encBlockSize = bs
        self.decBlockSize = bs
        self.verifyDigestSize = ms
        self.ms = ms
        self.verdicts = verdicts
        self.epos = 0
        self.dpos = 0
        self.verified = 0

    @staticmethod
    def _key(i):
        return (37 + 13 * i) % 256

    def encrypt(self, data):
        out = []
        for c in t(data):
            k = self._key(self.epos)
            self.epos += 1
            out.append(chr(lbytes.pw_map(ord(c), [(0, 255 - k, 1, k)], (1, k - 256))))
        return b("".join(out))

    def decrypt(self, data):
        out = []
        for c in t(data):
            k = self._key(self.dpos)
            self.dpos += 1
            out.append(chr(lbytes.pw_map(ord(c), [(k, 255, 1, -k)], (1, 256 - k))))
        return b("".join(out))

    def _tag(self, seq, text):
        n = len(text)
        out = []
        for j in range(self.ms):
            o = ord(text[(5 * j + 4) % n]) + seq + j + n
            out.append(chr(o % 256))
        return "".join(out)

    def makeMAC(self, seq, data):
        return b(self._tag(seq, t(data)))

    def verify(self, seq, data, mac):
        i = self.verified
        self.verified += 1
        good = self._tag(seq, t(data)) == t(mac)
        if not good:
            return False
        if i < len(self.verdicts) and not self.verdicts[i]:
            return False
        return True


# ---- independent oracle: RFC 4253 section 6 ---------------------------------------------------

def _be32(n):
    return chr(n // 16777216) + chr((n // 65536) % 256) + chr((n // 256) % 256) + chr(n % 256)


def _ref_padlen(n, bs):
    """smallest padding >= 4 that makes 4 + 1 + n + padding a multiple of bs (bs >= 8)"""
    for k in range(4, 4 + bs):
        if (4 + 1 + n + k) % bs == 0:
            return k
    raise AssertionError("no padding length")


def _ref_packet(m, p, rnd, bs):
    """plaintext binary packet for message number m (int) and payload text p; padding from rnd"""
    n = 1 + len(p)
    k = _ref_padlen(n, bs)
    return _be32(1 + n + k) + chr(k) + chr(m) + p + rnd.take(k)


def _fix(s, maxn):
    """the same text with a concrete length (one path per length)"""
    for n in range(maxn + 1):
        if len(s) == n:
            return "".join([s[i] for i in range(n)])
    raise AssertionError("length out of bound")


def _split_cases(n, split):
    for k in range(n + 1):
        if split == k:
            return k
    return n


def _deliver(rcv, stream, cuts, ends):
    """deliver stream cut at the given positions (a real transport stops reading once the protocol
    asked to lose the connection).  `ends` = stream offsets at which a packet is complete: after
    each delivery exactly the packets complete so far must have been dispatched (unless
    disconnected).  Returns False when that promptness check fails."""
    pos = 0
    for c in list(cuts) + [len(stream)]:
        if c <= pos:
            continue
        if rcv.transport.disconnecting:
            return True
        rcv.dataReceived(b(stream[pos:c]))
        pos = c
        if not rcv.transport.disconnecting:
            due = 0
            for e in ends:
                if e <= pos:
                    due += 1
            if len(rcv.got) != due:
                return False
    return True


def _sender_ok(snd, version_written, msgs, pool):
    """sender side: the bytes written are exactly the reference encoding"""
    ref = _Rand()
    ref.reset(pool)
    out = snd.transport.out
    if len(out) != version_written + len(msgs):
        return False
    for i, (m, p) in enumerate(msgs):
        if _ref_packet(m, p, ref, 8) != out[version_written + i]:
            return False
    return snd.outgoingPacketSequence == len(msgs)


# ---- part A: the real `none` SSHCiphers --------------------------------------------------------

def packets(m1: int, p1: str, two: bool, m2: int, p2: str, pad: str, s1: int, s2: int) -> bool:
    """
    pre: 0 <= m1 <= 255 and 0 <= m2 <= 255
    pre: len(p1) <= B['p'] and len(p2) <= B['p2'] and len(pad) == B['pad']
    pre: all(ord(c) < 256 for c in p1 + p2 + pad)
    pre: 0 <= s1 <= s2
    pre: two or (m2 == 0 and len(p2) == 0)
    pre: B['cuts'] == 2 or not two or s1 == 0
    post: _
    """
    p1 = _fix(p1, 8)
    p2 = _fix(p2, 8)
    pad = _fix(pad, 24)
    msgs = [(m1, p1)] + ([(m2, p2)] if two else [])
    _RAND.reset(pad)
    snd = _new()
    for m, p in msgs:
        snd.sendPacket(m, b(p))
    vline = snd.transport.out[0]
    api.obs(snd.transport.out)
    # the identification string is written first, ends in CR LF, and is 'SSH-2.0-<software>'
    if not (vline[:8] == "SSH-2.0-" and vline[-2:] == "\r\n" and "\n" not in vline[:-1] and len(vline) <= 255):
        return False
    if not _sender_ok(snd, 1, msgs, pad):
        return False
    if _RAND.asked != [len(w) - 6 - len(p) for w, (m, p) in zip(snd.transport.out[1:], msgs)]:
        return False
    wire = "".join(snd.transport.out[1:])
    ends = []
    for w in snd.transport.out[1:]:
        ends.append((ends[-1] if ends else 0) + len(w))
    k1 = _split_cases(len(wire), s1)
    k2 = _split_cases(len(wire), s2)
    rcv = _new()
    rcv.dataReceived(b(vline))
    prompt = _deliver(rcv, wire, [k1, k2], ends)
    api.obs((rcv.got, rcv.seqs, rcv.disc, t(rcv.buf)))
    cover()
    if not prompt or rcv.disc != [] or rcv.transport.disconnecting:
        return False
    if len(rcv.got) != len(msgs):
        return False
    for i, (m, p) in enumerate(msgs):
        gm, gp = rcv.got[i]
        if not (m == gm and p == gp and rcv.seqs[i] == i + 1):
            return False
    return (rcv.incomingPacketSequence == len(msgs) and t(rcv.buf) == "" and not hasattr(rcv, "first")
            and t(rcv.otherVersionString) == vline[:-2])


def _banner(nb, ban, eol):
    """lines sent before the identification string (RFC 4253 section 4.2: they must not begin with 'SSH-')"""
    if nb == 0:
        return ""
    if nb == 3:
        return "a" + ban + "SSH-b" + eol           # 'SSH-' inside a banner line is legal
    text = ban + "anner!" + eol
    if nb == 2:
        text = text + "2nd line" + eol
    return text


def version(nb: int, ban: str, v: str, crlf: bool, m1: int, p1: str, pad: str, s1: int, s2: int) -> bool:
    """
    pre: 0 <= nb <= 3 and 0 <= m1 <= 255
    pre: len(ban) <= B['ban'] and 1 <= len(v) <= B['v'] and len(p1) <= 1 and len(pad) in (0, 4)
    pre: all(0 < ord(c) < 256 for c in ban + v) and all(ord(c) < 256 for c in p1 + pad)
    pre: "\\n" not in ban and "\\n" not in v and "\\r" not in v and "-" not in v
    pre: nb > 0 or len(ban) == 0
    pre: 0 <= s1 <= s2
    pre: (B['cuts'] == 2 and nb == 0) or s1 == 0
    post: _
    """
    ban = _fix(ban, 4)
    v = _fix(v, 4)
    p1 = _fix(p1, 1)
    pad = _fix(pad, 4)
    eol = "\r\n" if crlf else "\n"
    _RAND.reset(pad)
    snd = _new()
    snd.sendPacket(m1, b(p1))
    wire = snd.transport.out[1]
    vline = "SSH-2.0-" + v
    head = _banner(nb, ban, eol) + vline + eol
    stream = head + wire
    k1 = _split_cases(len(stream), s1)
    k2 = _split_cases(len(stream), s2)
    rcv = _new()
    pos = 0
    prompt = True
    for c in [k1, k2, len(stream)]:
        if c <= pos:
            continue
        if rcv.transport.disconnecting:
            break
        rcv.dataReceived(b(stream[pos:c]))
        pos = c
        # the version is known exactly when its line (with the LF) has arrived; the packet is
        # dispatched exactly when its last byte has arrived
        if rcv.gotVersion != (pos >= len(head)) or len(rcv.got) != (1 if pos == len(stream) else 0):
            prompt = False
    api.obs((rcv.got, rcv.seqs, rcv.disc, t(rcv.buf), rcv.gotVersion))
    cover()
    if not prompt or rcv.disc != [] or rcv.transport.disconnecting:
        return False
    if not (rcv.gotVersion and vline == t(rcv.otherVersionString)):
        return False
    if len(rcv.got) != 1:
        return False
    gm, gp = rcv.got[0]
    return (m1 == gm and p1 == gp and rcv.seqs == [1] and rcv.incomingPacketSequence == 1
            and t(rcv.buf) == "" and not hasattr(rcv, "first"))


# ---- part B: model cipher / MAC -------------------------------------------------------------------

def framing(bs: int, ms: int, m1: int, p1: str, m2: int, p2: str, pad: str, s1: int, s2: int,
            ok1: bool, ok2: bool) -> bool:
    """
    pre: bs in (8, 16) and ms in (0, B['ms'])
    pre: 0 <= m1 <= 255 and 0 <= m2 <= 255
    pre: len(p1) <= B['p'] and len(p2) <= B['p2'] and len(pad) == B['pad']
    pre: all(ord(c) < 256 for c in p1 + p2 + pad)
    pre: 0 <= s1 <= s2
    pre: s1 == 0
    pre: ms > 0 or (ok1 and ok2)
    post: _
    """
    bs = 16 if bs == 16 else 8
    ms = 0 if ms == 0 else B['ms']
    p1 = _fix(p1, 8)
    p2 = _fix(p2, 8)
    pad = _fix(pad, 24)
    msgs = [(m1, p1), (m2, p2)]
    _RAND.reset(pad)
    snd = _new()
    snd.currentEncryptions = smodel = _Model(bs, ms, [])
    for m, p in msgs:
        snd.sendPacket(m, b(p))
    out = snd.transport.out[1:]
    api.obs(out)
    # sender: ciphertext of the reference packet followed by the tag of (sequence number, plaintext)
    ref = _Rand()
    ref.reset(pad)
    chk = _Model(bs, ms, [])
    ends = []
    for i, (m, p) in enumerate(msgs):
        plain = _ref_packet(m, p, ref, bs)
        want = t(chk.encrypt(b(plain))) + chk._tag(i, plain)
        if len(out) <= i or want != out[i]:
            return False
        ends.append((ends[-1] if ends else 0) + len(want))
    if len(out) != 2 or snd.outgoingPacketSequence != 2:
        return False
    wire = "".join(out)
    k1 = _split_cases(len(wire), s1)
    k2 = _split_cases(len(wire), s2)
    rcv = _new()
    rcv.dataReceived(b(snd.transport.out[0]))
    rcv.currentEncryptions = rmodel = _Model(bs, ms, [ok1, ok2])
    prompt = _deliver(rcv, wire, [k1, k2], ends)
    api.obs((rcv.got, rcv.seqs, rcv.disc, rcv.transport.disconnecting))
    if ok1 and ok2:
        cover()
        if not prompt or rcv.disc != [] or rcv.transport.disconnecting:
            return False
        if len(rcv.got) != 2:
            return False
        for i, (m, p) in enumerate(msgs):
            gm, gp = rcv.got[i]
            if not (m == gm and p == gp and rcv.seqs[i] == i + 1):
                return False
        return (rcv.incomingPacketSequence == 2 and t(rcv.buf) == "" and not hasattr(rcv, "first")
                and rmodel.verified == (2 if ms else 0))
    # the MAC of packet `bad` does not verify: disconnect with MAC_ERROR; that payload and every later
    # one is never dispatched; the packets before it are
    cover("badmac")
    bad = 0 if not ok1 else 1
    if rcv.disc != [MAC_ERROR] or not rcv.transport.disconnecting:
        return False
    if len(rcv.got) != bad:
        return False
    if bad == 1:
        gm, gp = rcv.got[0]
        if not (m1 == gm and p1 == gp):
            return False
    return rcv.incomingPacketSequence == bad and rmodel.verified == bad + 1


def badlength(bs: int, ms: int, hdr: str, fill: str, s1: int) -> bool:
    """
    pre: bs in (8, 16) and ms in (0, B['ms'])
    pre: len(hdr) == 4 and len(fill) == 2 and all(ord(c) < 256 for c in hdr + fill)
    pre: 0 <= s1 <= B['lcut']
    post: _
    """
    bs = 16 if bs == 16 else 8
    ms = 0 if ms == 0 else B['ms']
    total = 32 + ms
    hdr = _fix(hdr, 4)
    fill = _fix(fill, 2)
    plen = ((ord(hdr[0]) * 256 + ord(hdr[1])) * 256 + ord(hdr[2])) * 256 + ord(hdr[3])
    # case split on the declared length wherever it becomes a slice bound inside getPacket
    kind = "short"
    if plen > 1048576:
        kind = "huge"
    elif plen + 4 + ms <= total:
        kind = "fits"
        for k in range(total):
            if plen == k:
                plen = k
                hdr = _be32(k)
                break
    body = "\x04" + fill + "".join(chr(65 + (i % 26)) for i in range(total))
    plain = (hdr + body)[:total]
    if kind == "fits" and ms:
        # a correct tag behind the declared packet, so that verify() succeeds on well-formed lengths
        tag = _Model(bs, ms, [])._tag(0, plain[:4 + plen])
        plain = (plain[:4 + plen] + tag + plain)[:total]
        cipher = t(_Model(bs, ms, []).encrypt(b(plain[:4 + plen]))) + plain[4 + plen:]
    else:
        cipher = t(_Model(bs, ms, []).encrypt(b(plain)))
    if kind == "fits":
        # deliver exactly the declared packet (and its tag): what follows it would be parsed as the next packet
        cipher = cipher[:max(4 + plen + ms, bs)]
    n = len(cipher)
    k1 = _split_cases(n, s1)
    rcv = _new()
    rcv.dataReceived(b("SSH-2.0-x\r\n"))
    rcv.currentEncryptions = _Model(bs, ms, [])
    if k1 > 0:
        rcv.dataReceived(b(cipher[:k1]))
    if k1 < n and not rcv.transport.disconnecting:
        rcv.dataReceived(b(cipher[k1:]))
    api.obs((kind, rcv.got, rcv.disc))
    if kind == "huge":
        cover("huge")
        return rcv.got == [] and rcv.disc == [PROTOCOL_ERROR] and rcv.transport.disconnecting
    if kind == "short":
        cover("short")
        return rcv.got == [] and rcv.disc == []
    if (plen + 4) % bs != 0:
        cover("badmod")
        return rcv.got == [] and rcv.disc == [PROTOCOL_ERROR] and rcv.transport.disconnecting
    cover()
    if rcv.disc != []:
        return False
    if plen + 4 < 16:
        # shorter than the smallest legal packet: the 'payload' is empty, nothing may be dispatched
        return rcv.got == []
    if len(rcv.got) < 1:
        return False
    gm, gp = rcv.got[0]
    return ord(plain[5]) == gm and plain[6:plen] == gp


def padding(model: bool, m1: int, c: str, n: int, pad: str) -> bool:
    """
    pre: 0 <= m1 <= 255 and len(c) == 1 and ord(c) < 256 and 0 <= n <= B['n']
    pre: len(pad) == 4 and all(ord(x) < 256 for x in pad)
    post: _
    """
    # every payload length 0..n (all residues modulo the block size): padding arithmetic of sendPacket
    # against the reference rule, and the receiver's view of it (two equal sized packets, one delivery)
    n = _split_cases(B['n'], n)
    c = _fix(c, 1)
    pad = _fix(pad, 4)
    p = (c + "y" * n)[:n]
    bs, ms = (16, B['ms']) if model else (8, 0)
    _RAND.reset(pad)
    snd = _new()
    if model:
        snd.currentEncryptions = _Model(bs, ms, [])
    snd.sendPacket(m1, b(p))
    snd.sendPacket(m1, b(p))
    out = snd.transport.out[1:]
    api.obs(out)
    ref = _Rand()
    ref.reset(pad)
    chk = _Model(bs, ms, [])
    for i in range(2):
        plain = _ref_packet(m1, p, ref, bs)
        k = ord(plain[4])
        # RFC 4253 section 6, spelled out on the reference packet itself
        if not (len(plain) % bs == 0 and len(plain) >= 16 and 4 <= k <= 255 and len(plain) == 4 + 1 + 1 + n + k
                and _be32(len(plain) - 4) == plain[:4]):
            return False
        want = (t(chk.encrypt(b(plain))) + chk._tag(i, plain)) if model else plain
        if len(out) != 2 or want != out[i]:
            return False
    if _RAND.asked != [ord(plain[4])] * 2 or snd.outgoingPacketSequence != 2:
        return False
    rcv = _new()
    rcv.dataReceived(b(snd.transport.out[0]))
    if model:
        rcv.currentEncryptions = _Model(bs, ms, [])
    rcv.dataReceived(b(out[0] + out[1]))
    api.obs((rcv.got, rcv.seqs, rcv.disc))
    cover()
    if rcv.disc != [] or len(rcv.got) != 2 or rcv.seqs != [1, 2] or rcv.incomingPacketSequence != 2:
        return False
    for gm, gp in rcv.got:
        if not (m1 == gm and p == gp):
            return False
    return t(rcv.buf) == "" and not hasattr(rcv, "first")


def _len_shards(name, hi):
    return ["len(%s) == %d" % (name, k) for k in range(hi + 1)]


HARNESSES = [
    H(packets, shards=lambda tier: [("not two", a) for a in _len_shards("p1", BOUNDS[tier]["p"])] +
      [("two", a, c) for a in _len_shards("p1", BOUNDS[tier]["p"]) for c in _len_shards("p2", BOUNDS[tier]["p2"])],
      timeout={"quick": 90, "thorough": 1500}),
    H(version, shards=lambda tier: [("nb == %d" % n,) + c for n in (0, 1, 2, 3)
                                    for c in (("len(pad) == 0", "crlf"), ("len(pad) == 0", "not crlf"),
                                              ("len(pad) == 4 and s2 == 0",))],
      timeout={"quick": 90, "thorough": 1500}),
    H(framing, shards=lambda tier: [("bs == %d" % x, "ms == %d" % y, a)
                                    for x in (8, 16) for y in (0, BOUNDS[tier]["ms"])
                                    for a in _len_shards("p1", BOUNDS[tier]["p"])],
      labels=("end", "badmac"), timeout={"quick": 90, "thorough": 1500}),
    H(badlength, shards=lambda tier: [("bs == %d" % x, "ms == %d" % y) for x in (8, 16) for y in (0, BOUNDS[tier]["ms"])],
      labels=("end", "huge", "short", "badmod"), timeout={"quick": 90, "thorough": 900}),
    H(padding, shards=[("model",), ("not model",)], timeout={"quick": 90, "thorough": 900}),
]

VECTORS = {
    # test_sendPacketPlain / test_getPacketPlain (twisted/conch/test/test_transport.py): 'A' + b"BCDEFG", 0x99 padding
    "packets": [(65, "BCDEFG", False, 0, "", "\x99" * 6, 0, 0), (65, "BC", False, 0, "", "\x99" * 6, 3, 9),
                (65, "BC", True, 255, "\x00", "abcdef", 0, 17), (0, "", True, 1, "", "\n\r\x00\xff\x80 ", 16, 16)],
    # test_dataBeforeVersion / test_dataReceivedSSHVersionUnixNewline
    "version": [(2, "b", "x", False, 65, "B", "\x99" * 4, 0, 0), (1, "", "T", True, 20, "", "abcd", 3, 12),
                (0, "", "z", False, 94, "\n", "SSH.", 0, 12), (3, "x", "T", True, 65, "B", "", 0, 14),
                (1, "W", "z", True, 10, "S", "SH-\n", 0, 0), (1, "W", "z", True, 65, "B", "", 0, 9)],
    "framing": [(8, 4, 65, "BCD", 66, "", "\x99" * 6, 0, 9, True, True), (16, 4, 65, "B", 66, "C", "abcdef", 0, 40, True, False),
                (16, 0, 1, "", 2, "", "abcdef", 5, 16, True, True), (8, 4, 65, "B", 66, "C", "abcdef", 0, 0, False, True)],
    "padding": [(False, 65, "B", 6, "\x99" * 4), (True, 65, "B", 6, "\x99" * 4), (False, 0, "\n", 0, "abcd"), (True, 255, "\xff", 17, "abcd")],
    "badlength": [(8, 0, "\x00\x00\x00\x0c", "AB", 0), (8, 4, "\x00\x00\x00\x1c", "AB", 7), (16, 0, "\x00\x00\x00\x0c", "AB", 0),
                  (8, 0, "\x00\x10\x00\x01", "AB", 0), (8, 0, "\x00\x00\x01\x00", "AB", 9), (16, 4, "\x00\x00\x00\x1c", "AB", 20)],
}


def selftest():
    n = lbytes.selftest()
    # the reference padding rule against RFC 4253 section 6 by exhaustive arithmetic
    for bs in (8, 16):
        for ln in range(1, 80):
            k = _ref_padlen(ln, bs)
            assert 4 <= k < 4 + bs and (5 + ln + k) % bs == 0
            assert all((5 + ln + j) % bs != 0 for j in range(4, k))
            n += 1
    # the model cipher is a bijection per position and decrypt inverts encrypt across chunkings
    e, d = _Model(8, 4, []), _Model(8, 4, [])
    data = "".join(chr(i) for i in range(256)) * 2
    c = t(e.encrypt(b(data)))
    assert c != data and t(d.decrypt(b(c[:8]))) + t(d.decrypt(b(c[8:]))) == data
    return n + 2
