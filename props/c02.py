"""C02 Deferred chaining depth does not grow with the chain length.

A frame probe (number of live interpreter frames between the harness and the user callback / loop
body, and the number of those that execute defer.py code) is sampled inside every user callback of a
chain of n Deferreds and inside every iteration of a generator / coroutine loop over n Deferreds;
in addition a profile hook records, at every call of a defer.py function during the run, the number
of live defer.py frames (so recursion between twisted's own functions is seen where no user code runs).
The probe profile for n links must be the one for 2 links: a recursive implementation adds frames
per link and is refuted at n = 3.  The solver contributes the case split over (n, order, mode, kind)
only; every path is a concrete run of the real code.
"""
import sys

from twisted.internet.defer import Deferred, ensureDeferred, fail, inlineCallbacks, succeed

from vlib.api import H, cover

PROPERTY = "C02"
LEVEL = "exploration"
ENCODED = ["twisted.internet.defer:Deferred._runCallbacks", "twisted.internet.defer:Deferred._startRunCallbacks",
           "twisted.internet.defer:_inlineCallbacks", "twisted.internet.defer:_gotResultInlineCallbacks",
           "twisted.internet.defer:_cancellableInlineCallbacks", "twisted.internet.defer:Deferred.__iter__"]
BOUNDS = {"quick": {"n": 40}, "thorough": {"n": 150}}
B = {}
BOUNDS_TEXT = ("chain length / number of awaits 2 <= n <= N (N = 40 quick, 150 thorough); four firing orders of the "
               "chain's Deferreds (ascending, descending, links innermost-first with the last Deferred last, "
               "middle-out); "
               "all-success, all-failure and last-fails result modes; callback chain, inlineCallbacks loop, "
               "coroutine loop (first awaited Deferred pre-fired or fired later)")
OUTSIDE = ["n above the bound (the property text goes to 10^5) and the actual RecursionError: only "
           "'frame depth at n equals frame depth at 2' is decided, for each n in the bound",
           "the solver only drives the case split over (n, order, mode, kind); each path is one concrete run",
           "chains built through chainDeferred / paused Deferreds / callbacks added while running"]
ASSUMPTIONS = ["sys.setprofile call events are delivered for defer.py functions under CrossHair's sys.monitoring "
               "tracer as in the plain interpreter (validated by the mutants)",
               "sys._getframe/f_back report the interpreter's real frame stack under CrossHair's tracer "
               "(the same probe is used in the plain-interpreter replay)"]
EXPLANATION = ("frame-depth probe inside every user callback / loop iteration of the real Deferred chain, "
               "inlineCallbacks and coroutine machinery; profile for n links must equal the one for 2 links")


class _Err(Exception):
    pass


def _probe(base):
    # (frames above the harness frame, frames among them that run defer.py code)
    f = sys._getframe(1)
    total = 0
    indefer = 0
    while f is not None and f is not base:
        total += 1
        if f.f_code.co_filename.endswith("defer.py"):
            indefer += 1
        f = f.f_back
    return (total, indefer)


def _measured(fn, base):
    """run fn() with a profile hook that, at every call of a function defined in defer.py, counts
    the live defer.py frames above the harness; returns (fn(), maximum seen).  This sees recursion
    inside twisted's internals even where no user callback runs."""
    mx = [0]

    def prof(frame, event, arg):
        if event == "call" and frame.f_code.co_filename.endswith("defer.py"):
            d = 0
            f = frame
            while f is not None and f is not base:
                if f.f_code.co_filename.endswith("defer.py"):
                    if f.f_code.co_name == "__del__":
                        return      # DebugInfo.__del__: run by the garbage collector at arbitrary points
                    d += 1
                f = f.f_back
            if d > mx[0]:
                mx[0] = d
    old = sys.getprofile()
    sys.setprofile(prof)
    try:
        r = fn()
    finally:
        sys.setprofile(old)
    return r, mx[0]


def _fire_order(n, order):
    """order in which the n Deferreds of the chain are fired: 0 ascending (outermost first),
    1 descending (innermost first: every returned Deferred already has its final result),
    2 links innermost-first, the last Deferred last (n-2, n-3, .., 0, n-1: every returned Deferred is
    already waiting on the next one), 3 middle-out (m, m-1, m+1, m-2, ..)"""
    if order == 0:
        return list(range(n))
    if order == 1:
        return list(range(n - 1, -1, -1))
    if order == 2:
        return list(range(n - 2, -1, -1)) + [n - 1]
    m = n // 2
    out = [m]
    for j in range(1, n):
        if m - j >= 0:
            out.append(m - j)
        if m + j < n:
            out.append(m + j)
    return out


def _consume(d):
    d.addErrback(lambda f: None)


def _chain(n, order, mode, base):
    """ds[i]'s first callback returns ds[i+1]; a second callback on every ds[i] samples the depth.
    mode 0: all succeed; 1: every link fails and the *errback* returns the next Deferred;
    2: links succeed, the innermost one fails.  Returns (depths, final) where final is what a last
    callback on ds[0] sees."""
    depths = []
    ds = [Deferred() for _ in range(n)]
    final = []
    for i in range(n):
        if i < n - 1:
            if mode == 1:
                ds[i].addErrback(lambda f, i=i: ds[i + 1])
            else:
                ds[i].addCallback(lambda r, i=i: ds[i + 1])

        def sample(r, i=i):
            depths.append((i,) + _probe(base))
            return r
        ds[i].addBoth(sample)
    ds[0].addCallbacks(lambda r: final.append(("ok", r)), lambda f: final.append(("err", f.value)))
    excs = [_Err(i) for i in range(n)]
    for i in _fire_order(n, order):
        if mode == 1 or (mode == 2 and i == n - 1):
            ds[i].errback(excs[i])
        else:
            ds[i].callback(i)
    for d in ds:
        _consume(d)
    exp_final = [("ok", n - 1)] if mode == 0 else [("err", excs[n - 1])]
    # every link sampled exactly once, ds[0] fired once with the innermost result
    ok = sorted(x[0] for x in depths) == list(range(n)) and final == exp_final
    return [x[1:] for x in depths], ok


def _loop(n, first_later, mode, coro, base):
    """generator / coroutine awaiting n Deferreds in a loop; all pre-fired, except (first_later) the
    first one, which is fired after the function was started.  mode 0: all succeed; 1: all fail and
    the body catches; 2: the last one fails uncaught."""
    depths = []
    excs = [_Err(i) for i in range(n)]

    def mk(i):
        if mode == 1 or (mode == 2 and i == n - 1):
            return fail(excs[i])
        return succeed(i)
    ds = [mk(i) for i in range(n)]
    first = None
    if first_later:
        _consume(ds[0])
        first = ds[0] = Deferred()
    seen = []

    if coro:
        async def body():
            for i in range(n):
                try:
                    v = await ds[i]
                except _Err as e:
                    if mode == 2:
                        raise
                    v = e
                seen.append(v)
                depths.append(_probe(base))
            return "done"
        res = ensureDeferred(body())
    else:
        @inlineCallbacks
        def body():
            for i in range(n):
                try:
                    v = yield ds[i]
                except _Err as e:
                    if mode == 2:
                        raise
                    v = e
                seen.append(v)
                depths.append(_probe(base))
            return "done"
        res = body()
    if first is not None:
        if mode == 1 or (mode == 2 and n == 1):
            first.errback(excs[0])
        else:
            first.callback(0)
    final = []
    res.addCallbacks(lambda r: final.append(("ok", r)), lambda f: final.append(("err", f.value)))
    if mode == 0:
        ok = seen == list(range(n)) and final == [("ok", "done")]
    elif mode == 1:
        ok = seen == excs and final == [("ok", "done")]
    else:
        ok = seen == list(range(n - 1)) and final == [("err", excs[n - 1])]
    return depths, ok


def _same_profile(dn, dref):
    # depth(n) == depth(reference run): the first sample like the reference's first, every later one
    # like the reference's second (the reference run is the shortest one that has two samples)
    if len(dref) < 2 or len(dn) < 1:
        return False
    if dn[0] != dref[0]:
        return False
    for x in dn[1:]:
        if x != dref[1]:
            return False
    return True


def _nsplit(n, hi):
    # one concrete path per value of the symbolic length
    for k in range(2, hi + 1):
        if n == k:
            return k
    return hi


def chain_depth(n: int, order: int, mode: int) -> bool:
    """
    pre: 2 <= n <= B['n'] and 0 <= mode <= 2 and 0 <= order <= 3
    post: _
    """
    n = _nsplit(n, B['n'])
    mode = 0 if mode == 0 else (1 if mode == 1 else 2)
    order = 0 if order == 0 else (1 if order == 1 else (2 if order == 2 else 3))
    base = sys._getframe(0)
    # reference: the shortest chain in which this firing order already pauses and chains
    # (middle-out fires 2 links as [1, 0], which is plain descending; with 4 it is [2, 1, 3, 0])
    ref = 4 if order == 3 else 2
    (d2, ok2), max2 = _measured(lambda: _chain(ref, order, mode, base), base)
    (dn, okn), maxn = _measured(lambda: _chain(n, order, mode, base), base)
    cover()
    if not (ok2 and okn):
        return False
    if len(dn) != n:
        return False
    if maxn > max2:
        return False        # defer.py frames stacked somewhere inside the machinery grow with n
    return _same_profile(dn, d2)


def loop_depth(n: int, first_later: bool, mode: int, coro: bool) -> bool:
    """
    pre: 2 <= n <= B['n'] and 0 <= mode <= 2
    post: _
    """
    n = _nsplit(n, B['n'])
    mode = 0 if mode == 0 else (1 if mode == 1 else 2)
    first_later = True if first_later else False
    coro = True if coro else False
    base = sys._getframe(0)
    # mode 2: the last await raises out of the loop, so a run of length r has r - 1 samples
    ref = 3 if mode == 2 else 2
    (dref, okref), maxref = _measured(lambda: _loop(ref, first_later, mode, coro, base), base)
    (dn, okn), maxn = _measured(lambda: _loop(n, first_later, mode, coro, base), base)
    cover()
    if not (okref and okn):
        return False
    if maxn > maxref:
        return False
    if len(dn) != (n - 1 if mode == 2 else n):
        return False
    return _same_profile(dn, dref)


HARNESSES = [
    H(chain_depth, shards=[("mode == %d" % m, "order == %d" % o) for m in range(3) for o in range(4)], timeout={"quick": 60, "thorough": 600}),
    H(loop_depth, shards=[("mode == %d" % m, "coro == %s" % c) for m in range(3) for c in (False, True)],
      timeout={"quick": 60, "thorough": 600}),
]
VECTORS = {"chain_depth": [(2, 0, 0), (7, 1, 1), (12, 0, 2), (5, 0, 1), (9, 2, 0), (6, 2, 1), (8, 3, 2), (3, 3, 0)],
           "loop_depth": [(2, False, 0, False), (9, True, 1, True), (4, True, 2, False), (12, False, 2, True)]}
