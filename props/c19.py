"""C19 HTTP/1.1 server framing follows RFC 9112: exact bodies, no smuggling, 400 + close on bad framing.

Engine E2 (machinery shared with props/c18.py: lifted HTTPChannel / LineReceiver / decoders /
_abnf / http_headers, recording requestFactory and transport).

Kernels (fully symbolic, cheap): `_parseRequestLine` against the RFC 9112 3 / RFC 9110 5.6.2 grammar
written as a predicate over the characters; `_NameEncoder.encode` (header field-name = token);
`_decint` (1*DIGIT with optional surrounding SP / HTAB).

Channel: a request whose framing headers come from a menu of combinations (none, Content-Length,
Content-Length twice, Content-Length with Transfer-Encoding in both orders, chunked, identity, an
unknown coding, chunked twice, coding lists, obs-fold inside Content-Length, lower-case names) with
symbolic Content-Length digits / coding character / chunk-size digits / body bytes, whose body region
contains a complete smuggled request, followed by a second pipelined request.  The oracle is a
reference HTTP/1.1 framer written here from RFC 9112 (ref_http): the requests handed to the
application (method, target, version, headers, body), the bytes written and the connection state
must be exactly the reference's; on any framing/syntax error that is `400` + close with nothing
further handed over.
"""
from vlib import api, lbytes
from vlib.api import H, cover
from vlib.lift import b, t

from props.c18 import (L, LA, LH, all_latin1, conc_len, fix, fresh_name_cache, run_channel, split_cases)

PROPERTY = "C19"
LEVEL = "model_checking"
ENCODED = ["twisted.web.http:_parseRequestLine", "twisted.web._abnf:_istoken", "twisted.web._abnf:_decint",
           "twisted.web._abnf:_hexint", "twisted.web.http_headers:_NameEncoder.encode",
           "twisted.web.http:HTTPChannel.lineReceived", "twisted.web.http:HTTPChannel.headerReceived",
           "twisted.web.http:HTTPChannel._maybeChooseTransferDecoder",
           "twisted.web.http:HTTPChannel._failChooseTransferDecoder",
           "twisted.web.http:HTTPChannel.allHeadersReceived", "twisted.web.http:HTTPChannel.allContentReceived",
           "twisted.web.http:HTTPChannel.rawDataReceived", "twisted.web.http:HTTPChannel.requestDone",
           "twisted.web.http:HTTPChannel._respondToBadRequestAndDisconnect",
           "twisted.web.http:_IdentityTransferDecoder", "twisted.web.http:_ChunkedTransferDecoder",
           "twisted.protocols.basic:LineReceiver.dataReceived"]
BOUNDS = {"quick": {"m": 4, "tg": 4, "vs": 4, "nm": 2, "di": 3, "bd": 2},
          "thorough": {"m": 6, "tg": 5, "vs": 5, "nm": 3, "di": 4, "bd": 2}}
B = {}
BOUNDS_TEXT = ("kernels: request line with a fully symbolic method (<= m bytes), target (<= tg bytes), version "
               "(<= vs bytes after 'HTTP/' or alone), and one symbolic byte in method / SP / target / SP / version "
               "at the same time; header names <= nm bytes; _decint arguments <= di bytes (m, tg, vs = 4, nm = 2, "
               "di = 3 quick; 6, 5, 5, 3, 4 thorough).  Channel: 16 framing-header combinations with a symbolic "
               "2-byte Content-Length value (first digit 0-2, every other byte value) / coding byte / 2-byte chunk "
               "size (first digit 0-2) / obs-fold byte / byte before the colon / 2 body bytes; the body region "
               "holds a complete smuggled request; a second pipelined request follows; 2 symbolic header-name "
               "bytes and a header-value byte through the channel; one delivery, plus the stream cut right after "
               "the first request")
OUTSIDE = ["the h11 differential of the property text (symbolic execution through h11 is out of reach): the "
           "oracle is the reference framer in this file",
           "requests longer than the shapes; bodies longer than 21 bytes; limits (16384-byte lines / header "
           "section, 500 headers, 1024-byte chunk-size line, 64 KiB of trailers)",
           "choices RFC 9112 leaves to the server and that the reference takes the way twisted does: exactly "
           "one empty line before a request-line is skipped; obs-fold is replaced by SP (not rejected); a header "
           "line is judged when the next line arrives; `Transfer-Encoding: identity` means 'no coding' (RFC 2616) "
           "and is ignored; trailer fields are skipped without validation; an unsupported coding is answered 400 "
           "(the RFC suggests 501); two equal Content-Length fields are rejected; bare CR / LF inside a field "
           "value is rejected only in framing fields (elsewhere Headers replaces it by SP)",
           "chunk-extension syntax and decoder limits (C22)"]
ASSUMPTIONS = ["LBytes/LBuf reproduce bytes/bytearray semantics (vlib.lbytes.selftest on every run); lifted and "
               "real code agree on the concrete vectors below",
               "the reference framer ref_http is itself checked on RFC-derived concrete cases in selftest()",
               "a transport delivers nothing after loseConnection()",
               "the process-global header-name cache starts empty at every harness run; k_name, names_channel and "
               "the 'byte before the colon' combination use the same name twice (second call / second connection) "
               "so that the cached path is exercised with invalid names"]
EXPLANATION = ("lifted real request-line / header / framing code against a reference framer written from "
               "RFC 9112; framing-header combination case-split, digits / bytes symbolic")

_TCHAR = "!#$%&'*+-.^_`|~0123456789ABCDEFGHIJKLMNOPQRSTUVWXYZabcdefghijklmnopqrstuvwxyz"
_DIGITS = "0123456789"
_HEXDIG = "0123456789abcdefABCDEF"
_EXT_BAD = "".join(chr(i) for i in range(32) if i != 9) + "\x7f" + "\\"
BAD = "HTTP/1.1 400 Bad Request\r\n\r\n"


# ---- the reference (RFC 9112 / RFC 9110), over latin-1 text -----------------------------------------

def is_token(s):
    if len(s) == 0:
        return False
    for c in s:
        if not lbytes._char_in(c, _TCHAR):
            return False
    return True


def is_digits(s):
    if len(s) == 0:
        return False
    for c in s:
        if not ("0" <= c <= "9"):
            return False
    return True


def ows_strip(s):
    i = 0
    n = len(s)
    while i < n and (s[i] == " " or s[i] == "\t"):
        i += 1
    while n > i and (s[n - 1] == " " or s[n - 1] == "\t"):
        n -= 1
    return s[i:n]


def atoi(s, base):
    v = 0
    for c in s:
        o = ord(c)
        v = v * base + (o - 48 if o <= 57 else (o - 87 if o >= 97 else o - 55))
    return v


def ref_sanitize(value):
    """RFC 9110 5.5: CR / LF inside a field value are replaced by SP (or the message rejected)"""
    out = ""
    for c in value:
        out = out + (" " if (c == "\r" or c == "\n") else c)
    return ows_strip(out)


def ascii_lower(s):
    out = ""
    for c in s:
        out = out + (chr(ord(c) + 32) if "A" <= c <= "Z" else c)
    return out


def ref_request_line(line):
    """RFC 9112 3: request-line = method SP request-target SP HTTP-version; method = token;
    request-target without whitespace/controls (1*%x21-7E); version HTTP/1.0 or HTTP/1.1.
    Returns (method, target, version) or None"""
    sp = []
    for i in range(len(line)):
        if line[i] == " ":
            sp.append(i)
    if len(sp) != 2:
        return None
    m, tg, v = line[:sp[0]], line[sp[0] + 1:sp[1]], line[sp[1] + 1:]
    if not is_token(m):
        return None
    if len(tg) == 0:
        return None
    for c in tg:
        if not ("\x21" <= c <= "\x7e"):
            return None
    if v != "HTTP/1.1" and v != "HTTP/1.0":
        return None
    return (m, tg, v)


def _line(s, pos):
    i = s.find("\r\n", pos)
    if i < 0:
        return None
    return lbytes._norm(s[pos:i]), i + 2


def _ref_field(cur, fr):
    """one complete (unfolded) field line: returns (name, value) or None; updates the framing
    record fr = {'cl': [...], 'te': [...]}"""
    i = cur.find(":")
    if i < 0:
        return None
    name, value = cur[:i], ows_strip(cur[i + 1:])
    if not is_token(name):
        return None                      # RFC 9112 5.1: no whitespace before the colon, name is a token
    if "\x00" in value:
        return None
    ln = ascii_lower(name)
    if ln == "content-length":
        fr["cl"].append(value)
    elif ln == "transfer-encoding":
        fr["te"].append(ascii_lower(value))
    return (ln, ref_sanitize(value))


def _ref_framing(fr):
    """RFC 9112 6.3 -> ('none', 0) / ('cl', n) / ('chunked', 0) / None (reject)"""
    te = [x for x in fr["te"] if x != "identity"]
    for x in te:
        if x != "chunked":
            return None                  # a coding the server does not understand
    for x in fr["cl"]:
        if not is_digits(x):
            return None                  # Content-Length = 1*DIGIT
    if len(te) + len(fr["cl"]) > 1:
        return None                      # Content-Length with Transfer-Encoding, repeated fields
    if te:
        return ("chunked", 0)
    if fr["cl"]:
        return ("cl", atoi(fr["cl"][0], 10))
    return ("none", 0)


def _ref_chunked(s, pos):
    """RFC 9112 7.1 -> (body, newpos) / 'bad' / None (incomplete)"""
    body = ""
    while True:
        r = _line(s, pos)
        if r is None:
            return None
        line, pos = r
        i = line.find(";")
        size, ext = (line, "") if i < 0 else (line[:i], line[i + 1:])
        if len(size) == 0:
            return "bad"
        for c in size:
            if not lbytes._char_in(c, _HEXDIG):
                return "bad"
        for c in ext:
            if lbytes._char_in(c, _EXT_BAD):
                return "bad"
        n = atoi(size, 16)
        if n == 0:
            break
        if len(s) - pos < n:
            return None
        data = s[pos:pos + n]
        pos += n
        if len(s) - pos < 2:
            return None
        if s[pos:pos + 2] != "\r\n":
            return "bad"
        pos += 2
        body = body + data
    while True:                          # trailer section: skipped
        r = _line(s, pos)
        if r is None:
            return None
        line, pos = r
        if line == "":
            return body, pos


def ref_http(s):
    """what an RFC 9112 server that answers each request with <Rn> must do with the stream `s`:
    returns (requests, bytes written, closed, end offset of each request)"""
    reqs = []
    ends = []
    out = ""
    pos = 0
    while True:
        r = _line(s, pos)
        if r is None:
            return reqs, out, False, ends
        line, pos = r
        if line == "":                   # RFC 9112 2.2: one empty line before the request-line is ignored
            r = _line(s, pos)
            if r is None:
                return reqs, out, False, ends
            line, pos = r
        rl = ref_request_line(line)
        if rl is None:
            return reqs, out + BAD, True, ends
        fr = {"cl": [], "te": []}
        hs = []
        cur = None
        while True:
            r = _line(s, pos)
            if r is None:
                return reqs, out, False, ends
            line, pos = r
            if line != "" and (line[0] == " " or line[0] == "\t"):
                j = 0
                while j < len(line) and (line[j] == " " or line[j] == "\t"):
                    j += 1
                cur = (cur if cur is not None else "") + " " + line[j:]       # obs-fold -> SP
                continue
            if cur is not None:
                f = _ref_field(cur, fr)
                if f is None or _ref_framing(fr) is None:
                    return reqs, out + BAD, True, ends
                hs.append(f)
            if line == "":
                break
            cur = line
        kind, n = _ref_framing(fr)
        persistent = rl[2] == "HTTP/1.1"
        for name, value in hs:
            if name == "connection":
                for tok in value.split(" "):
                    if ascii_lower(tok) == "close":
                        persistent = False
        if kind == "none":
            body = ""
        elif kind == "cl":
            if len(s) - pos < n:
                return reqs, out, False, ends
            body = s[pos:pos + n]
            pos += n
        else:
            r = _ref_chunked(s, pos)
            if r is None:
                return reqs, out, False, ends
            if r == "bad":
                return reqs, out + BAD, True, ends
            body, pos = r
        reqs.append((rl[0], rl[1], rl[2], hs, body))
        ends.append(pos)
        out = out + "<R%d>" % len(reqs)
        if not persistent:
            return reqs, out, True, ends


def _req_eq(g, e):
    if g[0] != e[0] or g[1] != e[1] or g[2] != e[2] or g[4] != e[4]:
        return False
    # headers: the reference lists one (name, value) per field line; Headers groups by name
    flat = []
    for k, vs in g[3]:
        for v in vs:
            flat.append((ascii_lower(k), ows_strip(v)))     # modulo OWS (a replaced leading CR stays as SP)
    es = list(e[3])
    if len(flat) != len(es):
        return False
    for item in flat:
        if item not in es:
            return False
    return True


def _agree(stream, prefix=True, again=False):
    """run the channel on the stream (one delivery) and compare with the reference; then the same for
    the stream cut right after the first request (the request must be handed over as soon as its
    last byte is there).  again=True: the same stream is then presented on a second connection of the
    same process (the header-name cache is process-global and has seen every name of the first
    connection by now) and must be treated exactly as the first time"""
    fresh_name_cache()
    if not _agree1(stream, prefix):
        return False
    if again:
        return _agree1(stream, False)
    return True


def _agree1(stream, prefix):
    exp_reqs, exp_out, exp_closed, ends = ref_http(stream)
    got_reqs, got_out, got_closed, _ = run_channel([stream])
    api.obs((got_reqs, got_out, got_closed))
    cover()
    if got_closed != exp_closed or got_out != exp_out or len(got_reqs) != len(exp_reqs):
        return False
    for g, e in zip(got_reqs, exp_reqs):
        if not _req_eq(g, e):
            return False
    if prefix and len(ends) > 0 and ends[0] < len(stream):
        got_reqs, got_out, got_closed, _ = run_channel([stream[:ends[0]]])
        api.obs((len(got_reqs), got_out, got_closed))
        if len(got_reqs) != 1 or not _req_eq(got_reqs[0], exp_reqs[0]) or got_out != "<R1>" or got_closed:
            return False
    return True


# ---- kernels ----------------------------------------------------------------------------------------

def _reqline_ok(line):
    try:
        got = L._parseRequestLine(b(line))
        got = (t(got[0]), t(got[1]), t(got[2]))
    except ValueError:
        got = None
    api.obs(got)
    cover()
    exp = ref_request_line(line)
    if exp is None:
        return got is None
    return got is not None and got[0] == exp[0] and got[1] == exp[1] and got[2] == exp[2]


def k_method(m: str) -> bool:
    """
    pre: len(m) <= B['m'] and all_latin1(m)
    post: _
    """
    return _reqline_ok(fix(m, conc_len(m, 6)) + " /x HTTP/1.1")


def k_target(tg: str) -> bool:
    """
    pre: len(tg) <= B['tg'] and all_latin1(tg)
    post: _
    """
    return _reqline_ok("GET " + fix(tg, conc_len(tg, 6)) + " HTTP/1.0")


def k_version(pre5: bool, vs: str) -> bool:
    """
    pre: len(vs) <= B['vs'] and all_latin1(vs)
    post: _
    """
    return _reqline_ok("GET /x " + ("HTTP/" if pre5 else "") + fix(vs, conc_len(vs, 6)))


def k_line5(a: str, s1: str, c: str, s2: str, e: str) -> bool:
    """
    pre: len(a) == 1 and len(s1) == 1 and len(c) == 1 and len(s2) == 1 and len(e) == 1
    pre: all_latin1(a + s1 + c + s2 + e)
    post: _
    """
    # one symbolic byte in the method, each separator, the target and the version at the same time
    return _reqline_ok("G" + fix(a, 1) + fix(s1, 1) + "/" + fix(c, 1) + fix(s2, 1) + "HTTP/1." + fix(e, 1))


def k_name(nm: str) -> bool:
    """
    pre: len(nm) <= B['nm'] and all_latin1(nm)
    post: _
    """
    fresh_name_cache()
    nm = fix(nm, conc_len(nm, 4))
    try:
        got = t(LH._nameEncoder.encode(b(nm)))
    except LH.InvalidHeaderName:
        got = None
    try:
        again = t(LH._nameEncoder.encode(b(nm)))      # second use: the cache has seen the name
    except LH.InvalidHeaderName:
        again = None
    api.obs((got, again))
    cover()
    if (got is None) != (again is None) or (got is not None and got != again):
        return False
    if not is_token(nm):
        return got is None
    # field names are case-insensitive: the canonical form may only change letter case
    return got is not None and ascii_lower(got) == ascii_lower(nm)


def k_decint(s: str) -> bool:
    """
    pre: len(s) <= B['di'] and all_latin1(s)
    post: _
    """
    s = fix(s, conc_len(s, 4))
    try:
        got = LA._decint(b(s))
    except ValueError:
        got = None
    api.obs(got)
    cover()
    core = ows_strip(s)
    if not is_digits(core):
        return got is None
    v = 0
    for c in core:
        v = v * 10 + (ord(c) - 48)
    return got == v


# ---- the channel ------------------------------------------------------------------------------------

_SMUGGLED = "GET /s HTTP/1.1\r\n\r\n"      # 19 bytes that look like a request, inside the body region
_SECOND = "GET /b HTTP/1.1\r\n\r\n"
NCOMBO = 16


def _digit_cases(s, alphabet):
    """case split on the digit values (one path per digit): a symbolic length would make every later
    slice a symbolic-length operation; non-digits stay symbolic"""
    out = ""
    for ch in s:
        for h in alphabet:
            if ch == h:
                ch = h
                break
        out = out + ch
    return out


def framing_stream(combo, cl, x, bd):
    """the stream of a framing-header combination.  cl: 2-byte Content-Length value, x: one byte
    (last byte of the coding name / second Content-Length / fold byte), bd: body bytes"""
    CL = "Content-Length: " + cl + "\r\n"
    TE = "Transfer-Encoding: chunked\r\n"
    ident = "Transfer-Encoding: identity\r\n"
    if combo == 0:
        hdr, chunked = "", False
    elif combo == 1:
        hdr, chunked = CL, False
    elif combo == 2:
        hdr, chunked = CL + CL, False                                  # twice, equal
    elif combo == 3:
        hdr, chunked = CL + "Content-Length: " + cl[0] + x + "\r\n", False       # twice, second differs in x
    elif combo == 4:
        hdr, chunked = CL + TE, True
    elif combo == 5:
        hdr, chunked = TE + CL, True
    elif combo == 6:
        hdr, chunked = TE, True
    elif combo == 7:
        hdr, chunked = ident, False
    elif combo == 8:
        hdr, chunked = ident + CL, False
    elif combo == 9:
        hdr, chunked = "Transfer-Encoding: chunke" + x + "\r\n", True        # 'chunked' iff x in 'dD'
    elif combo == 10:
        hdr, chunked = TE + TE, True
    elif combo == 11:
        hdr, chunked = "Transfer-Encoding: gzip, chunked\r\n", True
    elif combo == 12:
        hdr, chunked = "Content-Length: " + cl[0] + "\r\n" + x + cl[1] + "\r\n", False   # obs-fold iff x is SP / HTAB
    elif combo == 13:
        hdr, chunked = "content-length:" + cl + "\r\n", False           # lower case, no OWS
    elif combo == 14:
        hdr, chunked = "TRANSFER-ENCODING:\tCHUNKED \r\n", True
    else:
        hdr, chunked = "Content-Length" + x + ": " + cl + "\r\n", False       # a byte between name and colon
    head = "POST /a HTTP/1.1\r\nHost: h\r\n" + hdr + "\r\n"
    return head, chunked


def framing(combo: int, cl: str, x: str, bd: str) -> bool:
    """
    pre: 0 <= combo < NCOMBO
    pre: len(cl) == 2 and len(x) == 1 and len(bd) == B['bd'] and all_latin1(cl + x + bd)
    pre: not lbytes._char_in(cl[0], "3456789abcdefABCDEF")
    post: _
    """
    if combo == 0 or combo == 7:
        cl = "21"                          # unused
    elif combo == 3 or combo == 15:
        cl = "21"                          # these combinations vary x; the length value is fixed
    elif combo == 9:
        cl = "13"
    else:
        cl = _digit_cases(fix(cl, 2), _DIGITS)
    x = fix(x, 1)
    if combo == 3:
        x = _digit_cases(x, _DIGITS)
    bd = fix(bd, conc_len(bd, 3))
    head, chunked = framing_stream(combo, cl, x, bd)
    if chunked:
        # the chunk size is the same two symbolic bytes: '13' frames bd + the 17 smuggled bytes
        sz = _digit_cases(cl, "abcdefABCDEF")
        payload = sz + "\r\n" + bd + _SMUGGLED[:17] + "\r\n" + "0\r\n\r\n"
    else:
        payload = bd + _SMUGGLED
    return _agree(head + payload + _SECOND, again=(combo == 15))


def names_channel(nm: str, vc: str) -> bool:
    """
    pre: len(nm) == 2 and len(vc) == 1 and all_latin1(nm + vc)
    post: _
    """
    stream = "GET /a HTTP/1.1\r\nX" + fix(nm, 2) + "Y: v" + fix(vc, 1) + "w\r\n\r\n" + _SECOND
    return _agree(stream, again=True)


HARNESSES = [
    H(k_method, shards=lambda tier: [("len(m) == %d" % a,) for a in range(BOUNDS[tier]["m"] + 1)],
      timeout={"quick": 60, "thorough": 900}),
    H(k_target, shards=lambda tier: [("len(tg) == %d" % a,) for a in range(BOUNDS[tier]["tg"] + 1)],
      timeout={"quick": 60, "thorough": 900}),
    H(k_version, shards=lambda tier: [("len(vs) == %d" % a,) for a in range(BOUNDS[tier]["vs"] + 1)],
      timeout={"quick": 60, "thorough": 900}),
    H(k_line5, timeout={"quick": 100, "thorough": 900}),
    H(k_name, shards=lambda tier: [("len(nm) == %d" % a,) for a in range(BOUNDS[tier]["nm"] + 1)],
      timeout={"quick": 60, "thorough": 900}),
    H(k_decint, shards=lambda tier: [("len(s) == %d" % a,) for a in range(BOUNDS[tier]["di"] + 1)],
      timeout={"quick": 60, "thorough": 900}),
    H(framing, shards=[("combo == %d" % c,) for c in range(NCOMBO) if c != 12] +
      [("combo == 12", "x in ' \\t'"), ("combo == 12", "x not in ' \\t'")], timeout={"quick": 240, "thorough": 900}),
    H(names_channel, timeout={"quick": 240, "thorough": 900}),
]

VECTORS = {
    "k_method": [("GET",), ("G T",), ("",), ("G(T",), ("get",), ("\xe9",), ("a\x00",), ("!#~",), ("A\t",)],
    "k_target": [("/",), ("/\x7f",), ("",), ("*",), ("/\xb0\x80",), ("/\xff",), ("/ a",), ("/\x00",), ("/~!",), ("\x80",)],
    "k_version": [(True, "1.1"), (True, "1.0"), (True, "2.0"), (True, "1.1 "), (False, "HTT"), (True, ""), (True, "1.\x31"),
                  (False, ""), (True, "1,1")],
    "k_line5": [("E", " ", "a", " ", "1"), ("E", "\t", "a", " ", "1"), ("E", " ", "\x7f", " ", "1"), (" ", " ", "a", " ", "0"),
                ("E", " ", " ", " ", "1"), ("E", " ", "a", "\r", "1"), ("E", " ", "a", " ", "2"), ("(", " ", "a", " ", "1")],
    "k_name": [("Host",), ("a b",), ("",), ("x:",), ("etag",), ("\xe9",), ("a-b",), ("te",), ("A\x00",)],
    "k_decint": [("12",), (" 7\t",), ("+1",), ("-1",), ("",), (" ",), ("1_0",), ("0x1",), ("1 2",), ("\n1",), ("007",)],
    "framing": [(0, "00", "d", "ab"), (1, "21", "d", "ab"), (1, "02", "d", "ab"), (1, "2 ", "d", "ab"),
                (1, "+2", "d", "ab"), (2, "21", "d", "ab"), (3, "21", "1", "ab"), (3, "21", "2", "ab"),
                (4, "21", "d", "ab"), (5, "13", "d", "ab"), (6, "13", "d", "ab"), (6, "02", "d", "ab"),
                (6, "00", "d", "ab"), (6, "1g", "d", "ab"), (7, "00", "d", "ab"), (8, "21", "d", "ab"),
                (9, "13", "d", "ab"), (9, "13", "D", "ab"), (9, "13", "x", "ab"), (10, "13", "d", "ab"),
                (11, "13", "d", "ab"), (12, "21", " ", "ab"), (12, "21", "\t", "ab"),
                (12, "21", "X", "ab"), (13, "21", "d", "ab"), (14, "13", "d", "ab"), (15, "21", " ", "ab"),
                (15, "21", "x", "ab"), (1, "\r\n", "d", "ab"), (1, "1\x00", "d", "ab"), (1, "25", "d", "ab"),
                (1, "01", "d", "\r\n")],
    "names_channel": [("ab", "c"), ("a:", "c"), (" b", "c"), ("\r\n", "c"), ("a\x00", "c"), ("ab", "\x00"),
                      ("ab", "\r"), ("ab", "\n"), ("-_", "\xff"), ("a(", " ")],
}


def selftest():
    # the reference framer on RFC-derived concrete cases (independent of twisted)
    R = ref_http
    ok = "GET /b HTTP/1.1\r\n\r\n"
    r2 = ("GET", "/b", "HTTP/1.1", [], "")
    R = lambda x: ref_http(x)[:3]   # noqa
    assert R(ok) == ([r2], "<R1>", False)
    assert R("POST / HTTP/1.1\r\nContent-Length: 3\r\n\r\nabc" + ok) == (
        [("POST", "/", "HTTP/1.1", [("content-length", "3")], "abc"), r2], "<R1><R2>", False)
    assert R("POST / HTTP/1.1\r\nContent-Length: 3\r\n\r\nab") == ([], "", False)
    assert R("POST / HTTP/1.1\r\nTransfer-Encoding: chunked\r\n\r\n4\r\nWiki\r\n5;x=y\r\npedia\r\n0\r\nT: v\r\n\r\n" + ok) == (
        [("POST", "/", "HTTP/1.1", [("transfer-encoding", "chunked")], "Wikipedia"), r2], "<R1><R2>", False)
    for bad in ["POST / HTTP/1.1\r\nContent-Length: 3\r\nTransfer-Encoding: chunked\r\n\r\n0\r\n\r\n",
                "POST / HTTP/1.1\r\nContent-Length: 3\r\nContent-Length: 4\r\n\r\nabcd",
                "POST / HTTP/1.1\r\nContent-Length: +3\r\n\r\nabc", "POST / HTTP/1.1\r\nContent-Length: 3 \r\n 4\r\n\r\nabc",
                "POST / HTTP/1.1\r\nTransfer-Encoding: gzip\r\n\r\n", "POST / HTTP/1.1\r\nTransfer-Encoding : chunked\r\n\r\n",
                "GET  / HTTP/1.1\r\n\r\n", "GET / HTTP/1.1 \r\n\r\n", "GET /\x7f HTTP/1.1\r\n\r\n", "GET / HTTP/2.0\r\n\r\n",
                "GET / HTTP/1.1\r\nNo colon\r\n\r\n", "POST / HTTP/1.1\r\nTransfer-Encoding: chunked\r\n\r\n1\r\nab\r\n0\r\n\r\n",
                "POST / HTTP/1.1\r\nTransfer-Encoding: chunked\r\n\r\n0x1\r\na\r\n0\r\n\r\n"]:
        assert R(bad + ok) == ([], BAD, True), bad
    assert R("GET / HTTP/1.0\r\n\r\n" + ok) == ([("GET", "/", "HTTP/1.0", [], "")], "<R1>", True)
    assert R("GET / HTTP/1.1\r\nConnection: Close\r\n\r\n" + ok)[1:] == ("<R1>", True)
    return lbytes.selftest() + 20
