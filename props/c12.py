"""C12 system event triggers (_ThreePhaseEvent): each remaining trigger once, in phase and registration order."""
import sys
import warnings
from typing import List

from twisted.internet.base import _ThreePhaseEvent
from twisted.internet.defer import Deferred

from vlib.api import H, cover

PROPERTY = "C12"
LEVEL = "model_checking"
ENCODED = ["twisted.internet.base:_ThreePhaseEvent.addTrigger", "twisted.internet.base:_ThreePhaseEvent.removeTrigger",
           "twisted.internet.base:_ThreePhaseEvent.removeTrigger_BASE",
           "twisted.internet.base:_ThreePhaseEvent.removeTrigger_BEFORE",
           "twisted.internet.base:_ThreePhaseEvent.fireEvent",
           "twisted.internet.base:_ThreePhaseEvent._continueFiring",
           "twisted.internet.defer:DeferredList.__init__", "twisted.internet.defer:DeferredList._cbDeferred",
           "twisted.logger._logger:_FastFailCtxMgr.__exit__"]
BOUNDS = {"quick": {"n": 4, "nf": 4, "rm": 2, "nd": 3}, "thorough": {"n": 6, "nf": 5, "rm": 2, "nd": 4}}
B = {}
BOUNDS_TEXT = ("exactly n (fire_order: nf) registrations on a fresh _ThreePhaseEvent, each with a symbolic phase "
               "(so every split of the triggers over the three phases, empty phases included); fire_order: every before-trigger returns None or an unfired "
               "Deferred, one symbolic trigger raises, the Deferreds are fired in every order (first one "
               "optionally with a failure); remove_before: <= rm removals by symbolic handle index before firing "
               "(double removal included); remove_during: one removal of a symbolic handle from inside a symbolic "
               "trigger or from outside while the before-Deferreds are pending, with and without Deferreds; "
               "duplicates: nd registrations of the same callable with a symbolic argument out of two (so identical "
               "(callable, args) pairs occur within a phase), <= rm removals by handle")
OUTSIDE = ["more than n triggers per event; triggers added while the event fires; identical "
           "registrations combined with Deferreds / raising triggers / removal while firing (identical "
           "registrations are covered for registration, removal before firing and firing order: duplicates)",
           "combinations of several raising triggers with several removals in one firing (each dimension is "
           "exhaustive on its own, pairs only as listed in the bounds)",
           "the reactor level wrappers addSystemEventTrigger/fireSystemEvent (the _ThreePhaseEvent is driven "
           "directly)"]
ASSUMPTIONS = ["twisted's global log publisher: the temporary pre-logging observer (stderr printer + buffer) is replaced "
               "at import of the harness module by an in-memory list observer; the logging calls made by "
               "_systemEventHandler are the real ones and the oracle checks that each trigger exception is reported "
               "exactly once",
               "DeprecationWarning emitted for removing an already-run before-trigger is captured with "
               "warnings.catch_warnings(record=True)",
               "Deferred / DeferredList are the real ones"]
EXPLANATION = ("symbolic phases, behaviours, removals (before, during, while waiting) and Deferred firing orders "
               "on the real _ThreePhaseEvent, execution log compared with a reference model after fireEvent and "
               "after every Deferred firing")

PH = ("before", "during", "after")

# Errors of raising triggers are reported through twisted.logger (Logger.failure, level critical).  Before
# logging is started the global publisher prints critical events to stderr and buffers the rest: replace that
# temporary observer by an in-memory list (no I/O under the solver) which the oracle also inspects.
from twisted.logger import globalLogPublisher  # noqa: E402
from twisted.logger._global import globalLogBeginner  # noqa: E402

_LOGGED = []


def _observer(event):
    f = event.get("log_failure")
    _LOGGED.append(f.type if f is not None else None)


if globalLogBeginner._temporaryObserver is not None:
    try:
        globalLogPublisher.removeObserver(globalLogBeginner._temporaryObserver)
    except ValueError:
        pass
globalLogPublisher.addObserver(_observer)


def _fail(msg):
    # plain False under the solver (post: _ needs a falsy value), a diagnostic tuple in replay / vector validation
    return False if "crosshair" in sys.modules else (False, msg)


class _Boom(Exception):
    pass


def _phase_name(p):
    # one path per phase value, concrete string afterwards
    if p == 0:
        return "before"
    if p == 1:
        return "during"
    return "after"


def _empty(ev):
    return ev.before == [] and ev.during == [] and ev.after == [] and ev.state == "BASE"


# ---------------------------------------------------------------- firing order, Deferreds, one raising trigger

def fire_order(kinds: List[int], raiser: int, fire: List[int], failfirst: bool) -> bool:
    """
    pre: len(kinds) == B['nf'] and all(0 <= k <= 3 for k in kinds)
    pre: 0 <= raiser <= B['nf']
    pre: len(fire) == B['nf'] and all(0 <= fire[s] < B['nf'] - s for s in range(B['nf']))
    post: _
    """
    # kinds: 0 before returning None, 1 before returning an unfired Deferred, 2 during, 3 after
    # raiser: index of the one trigger that raises (n: none); fire: Lehmer code of the firing order
    n = B['nf']
    ev = _ThreePhaseEvent()
    log = []
    ds = []
    argerr = []
    del _LOGGED[:]

    def mk(i, kind):
        def trig(*a, **kw):
            log.append(i)
            if a != (i, "x") or kw != {"key": i}:
                argerr.append(i)
            if i == raiser:
                raise _Boom()
            if kind == 1:
                d = Deferred()
                ds.append(d)
                return d
            if kind == 2:
                return Deferred()     # ignored outside the before phase
            return None
        return trig

    exp = [[], [], []]
    nd = 0
    for i in range(n):
        k = kinds[i]
        p = 0 if k <= 1 else 1 if k == 2 else 2
        ev.addTrigger(_phase_name(p), mk(i, k), i, "x", key=i)
        exp[p].append(i)
        if k == 1 and i != raiser:
            nd += 1
    full = exp[0] + exp[1] + exp[2]
    ev.fireEvent()
    if len(ds) != nd:
        return _fail("number of Deferreds")
    left = list(ds)
    for s in range(nd):
        # before phase done, in registration order; nothing else may run while a Deferred is pending
        if log != exp[0] or ev.state != "BEFORE":
            return _fail("ran %r while waiting, expected %r" % (log, exp[0]))
        pick = fire[s]
        if pick >= len(left):
            return True               # not a valid order code for this number of Deferreds: pruned
        d = None
        for c in range(len(left)):
            if pick == c:
                d = left.pop(c)
                break
        if s == 0 and failfirst:
            d.errback(_Boom())
            d.addErrback(lambda f: None)
        else:
            d.callback(s)
    cover()
    # all before-Deferreds fired: during then after, registration order, each exactly once; the raising
    # trigger did not stop the others
    if log != full:
        return _fail("ran %r, expected %r" % (log, full))
    if argerr or not _empty(ev):
        return _fail("arguments / leftover state")
    if _LOGGED != ([_Boom] if raiser < n else []):
        return _fail("trigger exception not reported exactly once")
    ev.fireEvent()                    # triggers are consumed: nothing runs twice
    return log == full and _empty(ev)


# ---------------------------------------------------------------- removals before firing

def remove_before(phases: List[int], rm: List[int]) -> bool:
    """
    pre: len(phases) == B['n'] and all(0 <= p <= 2 for p in phases)
    pre: len(rm) <= B['rm'] and all(0 <= r < B['n'] for r in rm)
    post: _
    """
    n = B['n']
    ev = _ThreePhaseEvent()
    log = []
    handles = []
    exp = [[], [], []]
    del _LOGGED[:]
    for i in range(n):
        p = phases[i]
        handles.append(ev.addTrigger(_phase_name(p), log.append, i))
        exp[0 if p == 0 else 1 if p == 1 else 2].append(i)
    removed = []
    for r in rm:
        rr = None
        for c in range(n):
            if r == c:
                rr = c
                break
        try:
            ev.removeTrigger(handles[rr])
            raised = False
        except ValueError:
            raised = True
        if raised != (rr in removed):
            return _fail("removeTrigger raised=%r for handle %d, removed so far %r" % (raised, rr, removed))
        if not raised:
            removed.append(rr)
    # malformed handles are rejected and change nothing
    for bad, exc in ((("before", log.append), ValueError), (("never", log.append, (0,), {}), KeyError),
                     (None, ValueError)):
        try:
            ev.removeTrigger(bad)
            return _fail("malformed handle accepted")
        except exc:
            pass
    try:
        ev.addTrigger("never", log.append, 99)
        return _fail("invalid phase accepted")
    except KeyError:
        pass
    full = [i for ph in exp for i in ph if i not in removed]
    ev.fireEvent()
    cover()
    if log != full:
        return _fail("ran %r, expected %r" % (log, full))
    return _empty(ev) and _LOGGED == []


# ---------------------------------------------------------------- identical registrations

def duplicates(phases: List[int], args: List[int], rm: List[int]) -> bool:
    """
    pre: len(phases) == B['nd'] and len(args) == B['nd']
    pre: len(rm) <= B['rm']
    post: _
    """
    # every registration uses the SAME callable; registrations with the same phase and argument are identical
    # (callable, args, kwargs) triples.  Each one is an independent registration: it runs once per registration,
    # and a handle removes exactly one of the equal entries (list.remove: the earliest one); removing more often
    # than registered raises ValueError.
    n = B['nd']
    ev = _ThreePhaseEvent()
    log = []
    handles = []
    exp = [[], [], []]
    del _LOGGED[:]
    for i in range(n):
        p = phases[i]
        a = args[i]
        if p < 0 or p > 2 or a < 0 or a > 1:
            return True                                   # not a phase / argument code: pruned
        pc = 0 if p == 0 else 1 if p == 1 else 2
        g = 0 if a == 0 else 1
        handles.append(ev.addTrigger(PH[pc], log.append, g))
        exp[pc].append(g)
        if handles[-1] != (PH[pc], log.append, (g,), {}):
            return _fail("handle")
    if [t[1][0] for t in ev.before] != exp[0] or [t[1][0] for t in ev.during] != exp[1] or \
            [t[1][0] for t in ev.after] != exp[2]:
        return _fail("registrations %r %r %r, expected %r" % (ev.before, ev.during, ev.after, exp))
    for r in rm:
        rr = None
        for c in range(n):
            if r == c:
                rr = c
                break
        if rr is None:
            return True                                   # not a handle index: pruned
        p = phases[rr]
        pc = 0 if p == 0 else 1 if p == 1 else 2
        g = 0 if args[rr] == 0 else 1
        try:
            ev.removeTrigger(handles[rr])
            raised = False
        except ValueError:
            raised = True
        if raised != (g not in exp[pc]):
            return _fail("removeTrigger raised=%r for handle %d, remaining %r" % (raised, rr, exp))
        if not raised:
            exp[pc].remove(g)                             # one registration less, the earliest equal one
    full = exp[0] + exp[1] + exp[2]
    ev.fireEvent()
    cover()
    if log != full:
        return _fail("ran %r, expected %r" % (log, full))
    return _empty(ev) and _LOGGED == []


# ---------------------------------------------------------------- removal while the event fires

def remove_during(phases: List[int], when: int, target: int, withd: bool) -> bool:
    """
    pre: len(phases) == B['n'] and all(0 <= p <= 2 for p in phases)
    pre: 0 <= when <= B['n'] and 0 <= target < B['n']
    post: _
    """
    # trigger `when` removes the handle of trigger `target` when it runs; when == n: the removal is done from
    # outside right after fireEvent() returned (while the before-Deferreds are pending if withd)
    n = B['n']
    ev = _ThreePhaseEvent()
    log = []
    handles = []
    ds = []
    del _LOGGED[:]
    tgt = None
    for c in range(n):
        if target == c:
            tgt = c
            break

    def remove(by):
        with warnings.catch_warnings(record=True) as wl:
            warnings.simplefilter("always")
            try:
                ev.removeTrigger(handles[tgt])
            except ValueError:
                log.append(("rmerr", by))
            if len(wl) == 1 and issubclass(wl[0].category, DeprecationWarning):
                log.append(("warn", by))
            elif wl:
                log.append(("unexpected warnings", by))

    def mk(i, p):
        def trig(a):
            log.append(a)
            if i == when:
                remove(i)
            if p == 0 and withd:
                d = Deferred()
                ds.append(d)
                return d
            return None
        return trig

    lists = [[], [], []]
    for i in range(n):
        p = phases[i]
        pc = 0 if p == 0 else 1 if p == 1 else 2
        handles.append(ev.addTrigger(PH[pc], mk(i, pc), i))
        lists[pc].append(i)
    tp = phases[tgt]
    tpc = 0 if tp == 0 else 1 if tp == 1 else 2

    # reference model
    m_log = []
    finished = []
    state = ["BEFORE"]

    def m_remove(by):
        if state[0] == "BEFORE" and tpc == 0 and tgt in finished:
            m_log.append(("warn", by))      # already run: no effect, deprecation warning
        elif tgt in lists[tpc]:
            lists[tpc].remove(tgt)          # not yet run: it never runs
        else:
            m_log.append(("rmerr", by))     # already run / already removed: ValueError

    def m_run(pc):
        while lists[pc]:
            i = lists[pc].pop(0)
            if pc == 0:
                finished.append(i)
            m_log.append(i)
            if i == when:
                m_remove(i)

    m_run(0)
    m_nd = len(finished) if withd else 0
    if m_nd == 0:
        state[0] = "BASE"
        m_run(1)
        m_run(2)
    ev.fireEvent()
    if log != m_log or len(ds) != m_nd:
        return _fail("after fireEvent: ran %r, expected %r" % (log, m_log))
    if when == n:
        m_remove("ext")
        remove("ext")
        if log != m_log:
            return _fail("external removal: %r, expected %r" % (log, m_log))
    for s in range(m_nd):
        if ev.state != "BEFORE" or log != m_log:
            return _fail("ran %r while waiting, expected %r" % (log, m_log))
        ds[m_nd - 1 - s].callback(None)
    if m_nd:
        state[0] = "BASE"
        m_run(1)
        m_run(2)
    cover()
    if log != m_log:
        return _fail("ran %r, expected %r" % (log, m_log))
    return _empty(ev) and _LOGGED == []


def _first_two(var, vals):
    return ["%s[0] == %d and %s[1] == %d" % (var, a, var, b) for a in vals for b in vals]


_BOTH_D = "kinds[0] == 1 and kinds[1] == 1"

HARNESSES = [
    H(fire_order, shards=lambda tier: [(c,) for c in _first_two("kinds", range(4)) if c != _BOTH_D] +
      [(_BOTH_D, "kinds[2] == %d" % k) for k in range(4)],      # two Deferreds up front: the largest subtree
      timeout={"quick": 120, "thorough": 1200}),
    H(remove_before, shards=lambda tier: ([("phases[0] == %d" % a,) for a in range(3)] if tier == "quick" else
                                          [(c,) for c in _first_two("phases", range(3))]),
      timeout={"quick": 120, "thorough": 1200}),
    H(remove_during, shards=lambda tier: ([("phases[0] == %d" % a, "withd == %s" % w) for a in range(3)
                                           for w in (True, False)] if tier == "quick" else
                                          [(c, "withd == %s" % w) for c in _first_two("phases", range(3))
                                           for w in (True, False)]),
      timeout={"quick": 120, "thorough": 1200}),
    H(duplicates, shards=lambda tier: [("phases[0] == 0",), ("phases[0] == 1",), ("phases[0] == 2",),
                                       ("phases[0] < 0 or phases[0] > 2",)],
      timeout={"quick": 120, "thorough": 1200}),
]

# Vectors are written for 4 triggers and padded to the current tier's bounds when the runner reads them
# (extra triggers are plain 'after' triggers; "no raiser" / "external removal" move to the new n).
_V4 = {
    "fire_order": [([1, 1, 2, 3], 4, [1, 0, 0, 0], False), ([0, 1, 2, 3], 2, [0, 0, 0, 0], True),
                   ([3, 2, 1, 0], 0, [0, 0, 0, 0], False), ([1, 1, 1, 1], 1, [2, 0, 0, 0], True)],
    "remove_before": [([0, 1, 2, 0], [0, 0]), ([2, 2, 1, 0], [3, 1]), ([1, 1, 1, 1], [])],
    "remove_during": [([0, 0, 1, 2], 0, 1, True), ([0, 0, 1, 2], 1, 0, True), ([0, 0, 1, 2], 2, 0, False),
                      ([0, 1, 1, 2], 4, 3, True), ([0, 1, 1, 2], 1, 1, False), ([0, 1, 1, 2], 0, 2, False),
                      ([0, 0, 1, 2], 1, 1, True), ([0, 0, 1, 2], 4, 0, True), ([0, 0, 1, 2], 4, 0, False)],
}


_V3D = [([0, 0, 0], [1, 1, 1], [2, 0]), ([1, 1, 2], [0, 0, 0], [0, 0]), ([0, 1, 0], [0, 1, 0], [2]),
        ([2, 2, 2], [0, 1, 0], [2, 1]), ([1, 1, 1], [0, 0, 1], [])]


class _Vectors(dict):
    def items(self):
        b = B or BOUNDS["quick"]
        n, nf = b["n"], b["nf"]
        out = {
            "fire_order": [(k + [3] * (nf - 4), nf if r == 4 else r, f + [0] * (nf - 4), ff)
                           for k, r, f, ff in _V4["fire_order"]],
            "remove_before": [(p + [2] * (n - 4), rm) for p, rm in _V4["remove_before"]],
            "remove_during": [(p + [2] * (n - 4), n if w == 4 else w, t, d) for p, w, t, d in _V4["remove_during"]],
            "duplicates": [(p + [2] * (b["nd"] - 3), a + [0] * (b["nd"] - 3), rm) for p, a, rm in _V3D],
        }
        return out.items()


VECTORS = _Vectors(_V4)
