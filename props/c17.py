"""C17 TLS layer (TLSMemoryBIOProtocol): application bytes are delivered intact, once, in order, under every
segmentation / interleaving of the encrypted streams, and the connection terminates cleanly.

pyOpenSSL (`OpenSSL`) is not installed here, so `twisted.protocols.tls` does not import, and OpenSSL's state
machine is C code anyway.  What is decidable is checked: the REAL `TLSMemoryBIOProtocol` (two instances, client
and server, built by the real `TLSMemoryBIOFactory` / `_ContextFactoryToConnectionFactory`) runs against a
CONTRACT MODEL of `OpenSSL.SSL.Connection` in memory-BIO mode, written from the pyOpenSSL / OpenSSL
documentation (see ASSUMPTIONS; the model is NOT validated against the real library, which is absent):
 * a fake `OpenSSL` package and a stub `twisted.internet._sslverify` are put into sys.modules only while
   `twisted.protocols.tls` is imported and removed afterwards;
 * "encryption" is the identity on record payloads; every `send` makes one record (header + payload), records
   are atomic for `recv` (readable only when completely `bio_write`n), so segmentation of the ciphertext
   matters; handshake = 3 (TLS 1.3 like) or 4 (TLS 1.2 like) flights of fixed size;
 * application data are ropes (vlib/rope.py): spans of a master stream with symbolic lengths; the ciphertext is
   a rope of a separate region of the master stream, so "twisted passes the engine's output to the transport
   intact and in order" is a contiguity check inside the receiving engine;
 * two in-memory transports with TCP-like close semantics; the SOLVER chooses the history: application writes
   (any length, any partial `send` count), delivery of k pending ciphertext bytes in either direction,
   loseConnection by either side, push producers, transport back-pressure, abrupt transport loss.
"""
import sys
import types

from vlib import api, rope
from vlib.api import H, cover

# ---- fake `OpenSSL` package ---------------------------------------------------------------------------------
# contract model of OpenSSL.SSL.Connection(context, None) (memory BIO mode), pyOpenSSL >= 21 on OpenSSL 1.1.1 / 3.x


class Error(Exception):
    """OpenSSL.SSL.Error: args[0] is the error queue, a list of (library, function, reason)"""


class WantReadError(Error):
    pass


class WantWriteError(Error):
    pass


class WantX509LookupError(Error):
    pass


class ZeroReturnError(Error):
    pass


class SysCallError(Error):
    """args = (errno, text); (-1, "Unexpected EOF") for an EOF in violation of the protocol (OpenSSL 1.1.x)"""


SENT_SHUTDOWN = 1
RECEIVED_SHUTDOWN = 2

_H = 5                          # bytes of record header on the wire
_MAXPLAIN = 1 << 14             # a TLS record carries at most 16 KiB of plaintext
_MAXWIRE = _H + _MAXPLAIN
_ALERT = _H + 2                 # wire size of the close_notify alert record
# wire sizes of the handshake flights; flight i is sent by the client when i is even, by the server when odd
_FLIGHTS = {False: (3, 4, 2, 2),    # TLS 1.2 like: ClientHello / ServerHello..Done / CKE+CCS+Finished / CCS+Finished
            True: (3, 6, 2)}        # TLS 1.3 like: ClientHello / ServerHello..Finished / Finished
_ABASE = (0, 1 << 22)           # application stream of side s = master[_ABASE[s] : ...]
_WBASE = (1 << 23, (1 << 23) + (1 << 22))   # ciphertext stream produced by the engine of side s


def _wire(a, b):
    """ciphertext master[a:b], b > a.  Rope world: the end points are kept as the very objects a, b"""
    if api.MODE == "real":
        return rope.span(a, b)
    return rope.Rope([(a, b)])


class _Link:
    """what the two engines of one connection share (the model's out-of-band knowledge: identity encryption)"""

    def __init__(self, tls13, eof3):
        self.flights = _FLIGHTS[True if tls13 else False]
        self.eof3 = eof3            # flavour of the "unexpected EOF" error: OpenSSL 3 (Error) or 1.1 (SysCallError)
        self.ends = [None, None]
        self.wire_ok = True         # every bio_write so far continued the peer's ciphertext stream exactly


class Context:
    def __init__(self, method=None):
        self._verif_link = None

    def set_options(self, *a):
        return 0

    def set_mode(self, *a):
        return 0


class Connection:
    """memory-BIO TLS endpoint.  records: (kind, end offset in my ciphertext stream, payload); kind "hs" (one
    handshake flight), "data", "close" (close_notify alert)."""

    def __init__(self, context, socket=None):
        if socket is not None:
            raise NotImplementedError("only the memory BIO mode is modelled")
        self._context = context
        self.link = context._verif_link
        self.role = None
        self.flight = 0             # index of the next flight of the handshake
        self.hs_done = False
        self.records = []
        self.emitted = 0            # ciphertext bytes produced so far
        self.outq = []              # ciphertext produced, not yet bio_read
        self.arrived = 0            # ciphertext bytes bio_written so far
        self.rx = 0                 # index of the next record of the peer to process
        self.upto = 0               # records of the peer below this index are known to have arrived completely
        self.eof = False            # bio_shutdown() called: no more input will come
        self.rbuf = None            # rest of a record larger than the recv buffer
        self.sent_shutdown = False
        self.received_shutdown = False
        self.poison = False         # harness: the next record that arrives was damaged on the way
        self.dead = False           # a fatal error happened
        self.partial = []           # harness: byte counts accepted by the next send() calls (short writes)
        self.app_data = None
        self.log = []

    # -- configuration
    def set_connect_state(self):
        self.role = 0
        self.link.ends[0] = self

    def set_accept_state(self):
        self.role = 1
        self.link.ends[1] = self

    def get_context(self):
        return self._context

    def set_app_data(self, data):
        self.app_data = data

    def get_app_data(self):
        return self.app_data

    def get_peer_certificate(self):
        return None

    def get_alpn_proto_negotiated(self):
        return b""

    def get_next_proto_negotiated(self):
        return b""

    def total_renegotiations(self):
        return 0

    def get_shutdown(self):
        return (SENT_SHUTDOWN if self.sent_shutdown else 0) | (RECEIVED_SHUTDOWN if self.received_shutdown else 0)

    def set_shutdown(self, state):
        self.sent_shutdown = bool(state & SENT_SHUTDOWN)
        self.received_shutdown = bool(state & RECEIVED_SHUTDOWN)

    def set_tlsext_host_name(self, name):
        pass

    # -- internals
    def _emit(self, kind, size, payload):
        base = _WBASE[self.role]
        a = base + self.emitted
        self.emitted = self.emitted + size
        b = base + self.emitted
        self.outq.append(_wire(a, b))
        self.records.append((kind, self.emitted, payload, b))

    def _peer_record(self):
        """the next record of the peer if it has arrived COMPLETELY, else None"""
        peer = self.link.ends[1 - self.role]
        if peer is None or self.rx >= len(peer.records):
            return None
        rec = peer.records[self.rx]
        if self.dead:
            raise Error([("SSL routines", "", "decryption failed or bad record mac")])
        if self.rx < self.upto or self.arrived >= rec[1]:
            # (rx < upto: known to be complete without asking the solver, see bio_write)
            if self.poison:
                # the record does not authenticate: fatal alert to the peer, this endpoint is finished
                self.dead = True
                self._emit("fatal", _ALERT, None)
                raise Error([("SSL routines", "", "decryption failed or bad record mac")])
            if rec[0] == "fatal":
                self.dead = True
                self.rx += 1
                raise Error([("SSL routines", "", "sslv3 alert bad record mac")])
            return rec
        return None

    def _eof_error(self):
        if self.link.eof3:
            return Error([("SSL routines", "", "unexpected eof while reading")])
        return SysCallError(-1, "Unexpected EOF")

    def _advance(self):
        """drive the handshake as far as the input allows; WantReadError when the peer's flight is missing"""
        fl = self.link.flights
        while self.flight < len(fl):
            if self.flight % 2 == self.role:
                self._emit("hs", fl[self.flight], None)
                self.flight += 1
            else:
                rec = self._peer_record()
                if rec is None:
                    if self.eof:
                        raise self._eof_error()
                    raise WantReadError()
                if rec[0] != "hs":
                    raise Error([("SSL routines", "", "unexpected message")])
                self.rx += 1
                self.flight += 1
        self.hs_done = True

    # -- the documented API used by twisted.protocols.tls
    def do_handshake(self):
        if self.role is None:
            raise Error([("SSL routines", "", "connection type not set")])
        if not self.hs_done:
            self._advance()

    def bio_write(self, buf):
        n = len(buf)
        base = _WBASE[1 - self.role]
        self.link.wire_ok = rope.band(self.link.wire_ok,
                                      rope.is_span(buf, base + self.arrived, base + self.arrived + n))
        self.arrived = self.arrived + n
        if rope.is_rope(buf) and buf.segs:
            # shortcut (rope world only): when the buffer ends exactly where a record of the peer ends (the very
            # same position object), every record up to that one is complete -- no solver query needed.  Sound
            # because wire_ok says the buffer sits at its place in the stream.
            e = buf.segs[-1][1]
            peer = self.link.ends[1 - self.role]
            if peer is not None:
                recs = peer.records
                for j in range(len(recs) - 1, self.rx - 1, -1):
                    if recs[j][3] is e:
                        self.upto = j + 1
                        break
        return n

    def bio_read(self, bufsiz):
        if not self.outq:
            raise WantReadError()
        if bufsiz >= len(self.outq) * _MAXWIRE:
            data = rope.concat(self.outq)
            self.outq = []
            return data
        total = rope.concat(self.outq)
        if len(total) <= bufsiz:
            self.outq = []
            return total
        self.outq = [total[bufsiz:]]
        return total[:bufsiz]

    def bio_shutdown(self):
        self.eof = True

    def send(self, buf, flags=0):
        if self.sent_shutdown:
            raise Error([("SSL routines", "", "protocol is shutdown")])
        if not self.hs_done:
            self._advance()
        take = rope.imin(len(buf), _MAXPLAIN)
        if self.partial:
            take = rope.imin(take, rope.imax(self.partial.pop(0), 1))
        self._emit("data", _H + take, buf[:take])
        return take

    write = send

    def recv(self, bufsiz, flags=None):
        if not self.hs_done:
            self._advance()
        if self.rbuf is not None:
            d = self.rbuf
            if len(d) <= bufsiz:
                self.rbuf = None
                return d
            self.rbuf = d[bufsiz:]
            return d[:bufsiz]
        if self.received_shutdown:
            raise ZeroReturnError()
        rec = self._peer_record()
        if rec is None:
            if self.eof:
                raise self._eof_error()
            raise WantReadError()
        self.rx += 1
        if rec[0] == "close":
            self.received_shutdown = True
            raise ZeroReturnError()
        if rec[0] != "data":
            raise Error([("SSL routines", "", "unexpected message")])
        d = rec[2]
        if bufsiz >= _MAXPLAIN:
            return d
        if len(d) <= bufsiz:
            return d
        self.rbuf = d[bufsiz:]
        return d[:bufsiz]

    read = recv

    def shutdown(self):
        if not self.hs_done:
            raise Error([("SSL routines", "", "shutdown while in init")])
        if not self.sent_shutdown:
            self.sent_shutdown = True
            self._emit("close", _ALERT, None)
            return True if self.received_shutdown else False
        if self.received_shutdown:
            return True
        # second call: look for the peer's close_notify
        rec = self._peer_record()
        if rec is None:
            if self.eof:
                raise self._eof_error()
            raise WantReadError()
        self.rx += 1
        if rec[0] == "close":
            self.received_shutdown = True
            return True
        raise Error([("SSL routines", "", "application data after close notify")])


def _setAcceptableProtocols(context, acceptableProtocols):
    pass


def _fake_modules():
    pkg = types.ModuleType("OpenSSL")
    pkg.__verif_fake__ = True
    pkg.__path__ = []
    pkg.__version__ = "24.0.0"
    ssl = types.ModuleType("OpenSSL.SSL")
    for k in ("Error", "WantReadError", "WantWriteError", "WantX509LookupError", "ZeroReturnError", "SysCallError",
              "Connection", "Context", "SENT_SHUTDOWN", "RECEIVED_SHUTDOWN"):
        setattr(ssl, k, globals()[k])
    ssl.TLS_METHOD = 7
    pkg.SSL = ssl
    sv = types.ModuleType("twisted.internet._sslverify")
    sv.__verif_fake__ = True
    sv._setAcceptableProtocols = _setAcceptableProtocols
    return {"OpenSSL": pkg, "OpenSSL.SSL": ssl, "twisted.internet._sslverify": sv}


def _import_tls():
    fakes = _fake_modules()
    saved = {k: sys.modules.get(k) for k in fakes}
    sys.modules.update(fakes)
    try:
        sys.modules.pop("twisted.protocols.tls", None)
        import twisted.protocols.tls as mod
    finally:
        for k, v in saved.items():
            if v is None:
                sys.modules.pop(k, None)
            else:
                sys.modules[k] = v
    return mod


_tls = _import_tls()

from zope.interface import implementer  # noqa: E402

from twisted.internet import error as _error  # noqa: E402
from twisted.internet import main as _main  # noqa: E402
from twisted.internet.interfaces import IHandshakeListener, IPushProducer  # noqa: E402
from twisted.internet.protocol import Factory, Protocol  # noqa: E402
from twisted.python.failure import Failure  # noqa: E402

PROPERTY = "C17"
LEVEL = "model_checking"
ENCODED = ["twisted.protocols.tls:TLSMemoryBIOProtocol.makeConnection",
           "twisted.protocols.tls:TLSMemoryBIOProtocol._checkHandshakeStatus",
           "twisted.protocols.tls:TLSMemoryBIOProtocol._flushSendBIO",
           "twisted.protocols.tls:TLSMemoryBIOProtocol._flushReceiveBIO",
           "twisted.protocols.tls:TLSMemoryBIOProtocol.dataReceived",
           "twisted.protocols.tls:TLSMemoryBIOProtocol._shutdownTLS",
           "twisted.protocols.tls:TLSMemoryBIOProtocol._tlsShutdownFinished",
           "twisted.protocols.tls:TLSMemoryBIOProtocol.connectionLost",
           "twisted.protocols.tls:TLSMemoryBIOProtocol.loseConnection",
           "twisted.protocols.tls:TLSMemoryBIOProtocol.abortConnection",
           "twisted.protocols.tls:TLSMemoryBIOProtocol.write",
           "twisted.protocols.tls:TLSMemoryBIOProtocol._bufferedWrite",
           "twisted.protocols.tls:TLSMemoryBIOProtocol._unbufferPendingWrites",
           "twisted.protocols.tls:TLSMemoryBIOProtocol._write",
           "twisted.protocols.tls:TLSMemoryBIOProtocol.registerProducer",
           "twisted.protocols.tls:TLSMemoryBIOProtocol.unregisterProducer",
           "twisted.protocols.tls:_ProducerMembrane.pauseProducing",
           "twisted.protocols.tls:_ProducerMembrane.resumeProducing",
           "twisted.protocols.tls:_ProducerMembrane.stopProducing",
           "twisted.protocols.tls:_representsEOF",
           "twisted.protocols.tls:TLSMemoryBIOFactory._createConnection",
           "twisted.protocols.tls:_ContextFactoryToConnectionFactory._connectionForTLS",
           "twisted.protocols.policies:ProtocolWrapper.connectionLost",
           "twisted.protocols.policies:ProtocolWrapper.dataReceived"]
BOUNDS = {"quick": {"hist": 3, "phist": 2, "fhist": 2, "cap": 1 << 14},
          "thorough": {"hist": 4, "phist": 3, "fhist": 3, "cap": 1 << 14}}
B = {}
BOUNDS_TEXT = ("two real TLSMemoryBIOProtocol instances (client, server) over two in-memory transports and the contract "
               "model of OpenSSL.SSL.Connection, handshake of 3 (TLS 1.3 like) or 4 (TLS 1.2 like) flights, both "
               "flavours of the unexpected-EOF error; prefix: the handshake has progressed by pre = 0..4 full "
               "deliveries (0 = only the ClientHello is in flight, 4 = finished on both sides); then a solver-chosen "
               "history, then a drain (everything in flight is delivered in both directions until nothing moves, at "
               "most 8 rounds).  history: hist (quick 3, thorough 4) operations out of {application write of 1..16384 "
               "bytes with the engine's first send accepting any 1..16384 bytes of it, delivery of any k >= 1 bytes "
               "of the ciphertext in flight in one direction (partial records and flights included) or of the end "
               "of the stream, application loseConnection, nothing}, each on either side.  history_prod: one side "
               "registers a push producer after the prefix, then phist (quick 2, thorough 3) operations out of "
               "{delivery, loseConnection on either side, producer writes, producer unregisters, underlying "
               "transport pauses / resumes the producer}; after the drain the producer writes once more if it may "
               "and unregisters (with `late` also when its connection is already gone), then a second drain.  "
               "history_fail: fhist (quick 2, thorough 3) operations out of {write, delivery, loseConnection, "
               "abrupt loss of one underlying connection, damage to the ciphertext in flight in one direction (the "
               "next record does not authenticate: Error on the receiving engine, fatal alert to the sender)}, at "
               "least one loss or damage")
OUTSIDE = ["the real OpenSSL / pyOpenSSL: cryptography, certificate verification, alerts other than close_notify, "
           "handshake failures other than a truncated stream or a flight that does not authenticate, renegotiation / KeyUpdate / NewSessionTicket (so "
           "WantReadError from send only occurs while the handshake is incomplete), WantWriteError, ALPN / NPN; the "
           "contract model was written from the documentation and is NOT validated against the real library "
           "(not installed)",
           "BufferingTLSTransport / _AggregateSmallWrites (the factory's default protocol; needs a reactor clock and "
           "joins byte strings) -- TLSMemoryBIOFactory.protocol is set to TLSMemoryBIOProtocol, as the module's own "
           "tests do; writeSequence (b''.join of the pieces, then write)",
           "pull producers (wrapped by _PullToPush, which needs the global reactor's cooperator), producers that "
           "write or unregister re-entrantly from inside pauseProducing / resumeProducing, registering a producer "
           "after loseConnection",
           "application writes larger than 16 KiB (more than one record per write; short sends exercise the same "
           "loop), empty writes, abortConnection / failVerification called by the application, startTLS "
           "(_connectWrapped=False), TLS over TLS",
           "histories longer than pre + hist operations; interleavings in which a transport that was told to close "
           "reports connectionLost later than at the end of the current operation; operations issued re-entrantly "
           "from dataReceived / connectionLost of the application",
           "half-close, and what a real TCP stack does with data in flight towards a side that has already closed "
           "(the model discards it)"]
ASSUMPTIONS = [
    "fake `OpenSSL` package (OpenSSL, OpenSSL.SSL) and a stub `twisted.internet._sslverify` (_setAcceptableProtocols "
    "only) are in sys.modules only while twisted.protocols.tls is imported; tls.py keeps references to the fake "
    "Connection / Error / SysCallError / WantReadError / ZeroReturnError",
    "Connection(context, None) is a memory-BIO endpoint; set_connect_state / set_accept_state choose the role; the "
    "handshake is a fixed sequence of flights of fixed wire size sent alternately, client first; do_handshake / send "
    "/ recv drive it as far as the input allows (emitting the own flights into the outgoing BIO) and raise "
    "WantReadError while the peer's next flight has not arrived COMPLETELY; do_handshake on a finished handshake "
    "returns None",
    "bio_write(b) appends to the incoming BIO and returns len(b); bio_read(n) returns up to n pending outgoing bytes "
    "and raises WantReadError when there are none; the memory BIOs are unbounded (no WantWriteError)",
    "send(b) after the handshake accepts min(len(b), 16384, solver-chosen count >= 1) bytes, turns them into ONE "
    "record (5 byte header + payload, identity 'encryption') in the outgoing BIO and returns the count (pyOpenSSL "
    "enables SSL_MODE_ENABLE_PARTIAL_WRITE); send after the own close_notify raises Error 'protocol is shutdown'",
    "recv(n) returns the payload (at most n bytes, the rest is kept) of the next record if it has arrived completely, "
    "raises WantReadError if not, ZeroReturnError once the peer's close_notify record was reached (and on every "
    "later call); reading goes on after the own close_notify was sent; after bio_shutdown() an incomplete or "
    "missing record gives the unexpected-EOF error: SysCallError(-1, 'Unexpected EOF') (OpenSSL 1.1) or "
    "Error([('SSL routines', '', 'unexpected eof while reading')]) (OpenSSL 3) -- solver-chosen flavour; the "
    "same error from the handshake when the stream ends early",
    "shutdown(): raises Error ('shutdown while in init') while the handshake is incomplete (OpenSSL >= 1.0.2f); "
    "first call afterwards emits the close_notify record and returns True iff the peer's close_notify was already "
    "read, else False; a later call returns True if it has been read, else looks at the next complete record "
    "(close_notify: True; application data: Error; none: WantReadError)",
    "damaged ciphertext (history_fail): the next record or flight that arrives completely at the receiving engine "
    "raises Error 'decryption failed or bad record mac' from do_handshake / recv / shutdown, a fatal alert record "
    "goes to the outgoing BIO, every later call raises the same Error; the sender's engine raises Error 'sslv3 alert "
    "bad record mac' when it reaches the alert",
    "get_peer_certificate None, get_alpn_proto_negotiated b'', get/set_shutdown flags SENT_SHUTDOWN = 1 / "
    "RECEIVED_SHUTDOWN = 2, get/set_app_data, total_renegotiations 0",
    "the two engines of a connection share the list of records each has emitted (identity encryption: recv hands "
    "out the very payload object given to send); the ciphertext itself is a rope over a separate region of the "
    "master stream and every bio_write is checked to continue the peer's ciphertext stream exactly (formula "
    "wire_ok, part of the verdict), so dropping, duplicating, reordering or inventing ciphertext -- or writing "
    "plaintext to the transport -- is a violation; in the rope world a buffer that ends at the very end-position "
    "object of a record marks all records up to it complete without a solver query",
    "ropes: application data is opaque (client stream = master[0:...], server stream = master[2**22:...]); any "
    "content access by the code under test raises RopeContentAccess",
    "in-memory transports with TCP-like semantics: write is accepted until the connection is closed (also after "
    "loseConnection), loseConnection / abortConnection take effect at the end of the current operation "
    "(connectionLost(ConnectionDone) to the own protocol; a registered producer gets stopProducing, as "
    "FileDescriptor.connectionLost does), abortConnection discards undelivered bytes, bytes written before "
    "loseConnection stay deliverable, the peer sees the end of the stream (connectionLost(ConnectionDone)) only "
    "after everything in flight was delivered; nothing is delivered to a closed side; an abrupt loss is "
    "connectionLost(ConnectionLost) at any point",
    "specification of 'written before its loseConnection': a write counts iff, when it is made, the writer's "
    "application has not called loseConnection (or still has its producer registered) and the writer's underlying "
    "transport has not been told to close (the layer has not seen the peer's close_notify or an error); the peer's "
    "application must never see more than that, always an in-order prefix, and after the drain exactly that unless "
    "a connection was lost abruptly or the receiving side aborted (loseConnection before the handshake finished "
    "with nothing buffered aborts by design)",
    "construction of the world and the handshake prefix run on concrete values with CrossHair's tracing "
    "switched off (plain interpreter)",
]
EXPLANATION = ("real TLSMemoryBIOProtocol pair (ropes for data and ciphertext) against a contract model of "
               "OpenSSL.SSL.Connection: solver-chosen histories of writes, partial sends, ciphertext segmentation, "
               "loseConnection, producers and connection loss, then a drain; stream, close and producer oracles")


# ---- environment: application protocol, producer, in-memory transport -----------------------------------------

@implementer(IHandshakeListener)
class _App(Protocol):
    def __init__(self):
        self.chunks = []
        self.made = 0
        self.lost = 0
        self.late = False       # dataReceived after connectionLost
        self.hs = 0
        self.hs_late = False
        self.reason = None

    def connectionMade(self):
        self.made += 1

    def handshakeCompleted(self):
        self.hs += 1
        if self.chunks or self.lost:
            self.hs_late = True

    def dataReceived(self, data):
        if self.lost:
            self.late = True
        self.chunks.append(data)
        cover("data")

    def connectionLost(self, reason):
        self.lost += 1
        self.reason = reason


@implementer(IPushProducer)
class _Producer:
    """a passive push producer: records what it is told; the harness writes on its behalf while it is not paused"""

    def __init__(self):
        self.events = []
        self.paused = False
        self.stopped = False

    def pauseProducing(self):
        self.events.append("pause")
        self.paused = True

    def resumeProducing(self):
        self.events.append("resume")
        self.paused = False

    def stopProducing(self):
        self.events.append("stop")
        self.stopped = True


class _Addr:
    host = "peer"
    port = 1


class _Transport:
    """in-memory stream transport with the close semantics of a TCP transport: bytes written before
    loseConnection are delivered, then the peer sees the end of the stream; abortConnection discards what was
    not delivered; writes after the close are dropped"""

    def __init__(self, side):
        self.side = side
        self.pending = []       # ciphertext written, not yet delivered to the peer (non-empty pieces)
        self.closing = False    # loseConnection / abortConnection was called
        self.aborted = False
        self.closed = False     # connectionLost was delivered to the protocol
        self.disconnecting = False
        self.producer = None
        self.errors = []

    def write(self, data):
        if self.closed or self.aborted:
            return
        self.pending.append(data)

    def writeSequence(self, seq):
        for d in seq:
            self.write(d)

    def loseConnection(self):
        if not self.closed:
            self.closing = True
            self.disconnecting = True

    def abortConnection(self):
        if not self.closed:
            self.closing = True
            self.aborted = True
            self.disconnecting = True
            self.pending = []

    def registerProducer(self, producer, streaming):
        if self.producer is not None:
            raise RuntimeError("producer already registered")
        if not streaming:
            self.errors.append("pull producer on the underlying transport")
        self.producer = producer

    def unregisterProducer(self):
        self.producer = None

    def getPeer(self):
        return _Addr()

    getHost = getPeer


class _CtxFactory:
    """old-style context factory (IOpenSSLContextFactory): goes through _ContextFactoryToConnectionFactory and
    the module's `Connection(context, None)`"""

    def __init__(self, ctx):
        self.ctx = ctx

    def getContext(self):
        return self.ctx


_NOCLOCK = object()


def _concrete(d, top):
    for k in range(top + 1):
        if d == k:
            return k
    return top


def _opcode(o):
    """one path per operation code 0..9, two or three decisions each"""
    if o <= 3:
        if o <= 1:
            return 0 if o == 0 else 1
        return 2 if o == 2 else 3
    if o <= 6:
        if o == 4:
            return 4
        return 5 if o == 5 else 6
    if o <= 8:
        return 7 if o == 7 else 8
    return 9


# ---- the world -----------------------------------------------------------------------------------------------------

class _Quiet:
    """everything inside runs on concrete values only: switch CrossHair's tracing off (plain interpreter speed;
    among other things CrossHair runs gc.collect() on every weakref call, which zope.interface makes a lot of)"""

    def __enter__(self):
        lib = rope._chlib()
        self.cm = lib[3]() if lib is not None else None
        if self.cm is not None:
            self.cm.__enter__()
        return self

    def __exit__(self, *exc):
        if self.cm is not None:
            return self.cm.__exit__(*exc)
        return False


class _World:
    def __init__(self, tls13, eof3, pre):
        tls13 = True if tls13 else False
        with _Quiet():
            self._build(tls13, eof3)
            for i in range(pre):
                # the handshake has progressed by `pre` full deliveries, client -> server first
                self.deliver(i % 2, None)

    def _build(self, tls13, eof3):
        rope.reset()
        self.link = _Link(tls13, eof3)
        self.T = [_Transport(0), _Transport(1)]
        self.app = []
        self.tls = []
        for s in (0, 1):
            ctx = Context()
            ctx._verif_link = self.link
            f = _tls.TLSMemoryBIOFactory(_CtxFactory(ctx), s == 0, Factory.forProtocol(_App), clock=_NOCLOCK)
            f.protocol = _tls.TLSMemoryBIOProtocol
            p = f.buildProtocol(None)
            self.tls.append(p)
            self.app.append(p.wrappedProtocol)
        self.W = [0, 0]             # bytes written by the application of side s so far
        self.Wexp = [0, 0]          # ... of which: written while the connection was open from s's point of view
        self.dropped = [False, False]
        self.applost = [False, False]
        self.prod = [None, None]
        self.prodreg = [False, False]
        self.failed = False
        self.tpaused = [False, False]   # the underlying transport has told its producer to pause
        self.late = False           # the producer calls unregisterProducer even after its connection was lost
        self.bad = None
        for s in (0, 1):
            self.tls[s].makeConnection(self.T[s])
        self.eng = list(self.link.ends)

    # -- transport events
    def _close(self, s, why):
        T = self.T[s]
        if T.closed:
            return
        T.closed = True
        T.closing = True
        if T.producer is not None:
            # a real transport stops its producer when the connection is lost
            pr = T.producer
            T.producer = None
            pr.stopProducing()
        self.tls[s].connectionLost(Failure(why))

    def settle(self):
        """a transport that was told to close (and has handed its bytes to the network) reports connectionLost"""
        for i in range(2):
            for s in (0, 1):
                T = self.T[s]
                if T.closing and not T.closed:
                    self._close(s, _main.CONNECTION_DONE)

    def deliver(self, s, k):
        """k bytes (None: everything) of the ciphertext in flight from side s reach the peer; when nothing is in
        flight and side s has closed, the peer sees the end of the stream.  Returns True if something happened."""
        T = self.T[s]
        p = 1 - s
        if self.T[p].closed:
            if T.pending:
                T.pending = []
            return False
        if T.pending:
            wire = rope.concat(T.pending)
            if k is None or k >= len(wire):
                T.pending = []
                self.tls[p].dataReceived(wire)
            elif rope.is_rope(wire):
                # re-segmentation by the network; the ciphertext in flight is one contiguous span [a, e)
                a = wire.segs[0][0]
                e = wire.segs[-1][1]
                self.link.wire_ok = rope.band(self.link.wire_ok, rope.is_span(wire, a, e))
                T.pending = [rope.Rope([(a + k, e)])]
                self.tls[p].dataReceived(rope.Rope([(a, a + k)]))
            else:
                T.pending = [wire[k:]]
                self.tls[p].dataReceived(wire[:k])
        elif T.closed:
            self._close(p, _main.CONNECTION_DONE)
        else:
            return False
        self.settle()
        return True

    def fail(self, s):
        """the underlying connection of side s is lost abruptly"""
        self.failed = True
        self._close(s, _main.CONNECTION_LOST)
        self.settle()

    def corrupt(self, s):
        """the ciphertext in flight from side s is damaged: the record it belongs to will not authenticate"""
        if not self.T[s].pending or self.T[1 - s].closed:
            return False
        self.eng[1 - s].poison = True
        self.failed = True
        return True

    # -- application operations
    def is_open(self, s):
        T = self.T[s]
        return not (T.closing or T.closed)

    def write(self, s, n, part):
        accepted = (not self.applost[s] or self.prodreg[s]) and self.is_open(s) and not self.dropped[s]
        e = self.eng[s]
        e.partial = [part]
        data = rope.span(_ABASE[s] + self.W[s], _ABASE[s] + self.W[s] + n)
        self.tls[s].write(data)
        self.W[s] = self.W[s] + n
        if accepted:
            self.Wexp[s] = self.W[s]
        else:
            self.dropped[s] = True
        self.settle()

    def lose(self, s):
        self.applost[s] = True
        self.tls[s].loseConnection()
        self.settle()

    def register(self, s):
        if self.prod[s] is not None or self.applost[s] or not self.is_open(s):
            return False
        pr = _Producer()
        self.prod[s] = pr
        self.tls[s].registerProducer(pr, True)
        if pr.stopped:
            return True
        self.prodreg[s] = True
        if self.T[s].producer is None:
            self.bad = "producer not registered with the underlying transport"
        return True

    def produce(self, s, n, part):
        pr = self.prod[s]
        if not self.prodreg[s] or pr.paused or pr.stopped:
            return False
        self.write(s, n, part)
        if self.tls[s]._appSendBuffer and not pr.paused and not pr.stopped:
            self.bad = "the layer buffers what the producer writes but did not pause it"
        return True

    def unregister(self, s):
        if not self.prodreg[s]:
            return False
        self.prodreg[s] = False
        if self.T[s].closed and not self.late:
            return False            # this producer does not talk to a connection that is gone
        self.tls[s].unregisterProducer()
        if self.T[s].producer is not None:
            self.bad = "producer left registered with the underlying transport"
        self.settle()
        return True

    def tpause(self, s, pause):
        m = self.T[s].producer
        if m is None:
            return False
        self.tpaused[s] = pause
        if pause:
            m.pauseProducing()
        else:
            m.resumeProducing()
        return True

    # -- observations
    def quick_ok(self):
        """cheap concrete checks, after every operation"""
        if self.bad is not None:
            return False
        for s in (0, 1):
            a = self.app[s]
            if a.late or a.lost > 1 or a.made != 1 or a.hs > 1 or a.hs_late:
                return False
            if a.lost == 1 and not self.T[s].closed:
                return False        # connectionLost only after the underlying transport is gone
            if self.T[s].errors:
                return False
            pr = self.prod[s]
            if pr is not None:
                expect = "pause"
                for ev in pr.events:
                    if ev == "stop":
                        continue
                    if ev != expect:
                        return False    # pause / resume strictly alternate
                    expect = "resume" if expect == "pause" else "pause"
                m = self.tls[s]._producer
                if self.prodreg[s] and not pr.stopped:
                    if m is None or m._producer is not pr or bool(m._producerPaused) != pr.paused:
                        return False
                if not self.prodreg[s] and m is not None and not pr.stopped:
                    return False
        return True

    def received(self, s):
        """(R, formula): what the application of side s got so far is exactly the first R bytes of the peer's
        application stream, and nothing the peer wrote after it considered the connection closed"""
        p = 1 - s
        data = rope.concat(self.app[s].chunks)
        r = rope.length(data)
        ok = rope.band(rope.is_span(data, _ABASE[p], _ABASE[p] + r), r <= self.Wexp[p])
        return r, ok

    def drain(self, rounds):
        """deliver everything in flight in both directions until nothing moves any more"""
        for i in range(rounds):
            moved = False
            for s in (0, 1):
                if self.deliver(s, None):
                    moved = True
            if not moved:
                return True
        return False


def _final(w, ok):
    """verdict after the drain; ok: conjunction of the formulas collected so far"""
    if not w.quick_ok():
        return False
    any_lose = (w.applost[0] and not w.prodreg[0]) or (w.applost[1] and not w.prodreg[1])
    ok = rope.band(ok, w.link.wire_ok)
    for s in (0, 1):
        p = 1 - s
        r, f = w.received(s)
        ok = rope.band(ok, f)
        if w.T[s].pending and not w.T[p].closed:
            return False
        if not w.failed and not w.T[s].aborted:
            # orderly run: everything the peer wrote while it considered the connection open has arrived
            ok = rope.band(ok, r == w.Wexp[p])
    if any_lose or w.failed:
        for s in (0, 1):
            if not w.T[s].closed or w.app[s].lost != 1:
                return False
            if w.tls[s]._tlsConnection is not None or w.tls[s].connected:
                return False
            if not w.failed and not w.T[0].aborted and not w.T[1].aborted:
                # orderly termination (close_notify both ways): the application is told "closed cleanly"
                if w.app[s].reason.check(_error.ConnectionDone) is None:
                    return False
        cover("closed")
    else:
        for s in (0, 1):
            if w.T[s].closing or w.app[s].lost != 0:
                return False
            if not w.eng[s].hs_done or not w.tls[s]._handshakeDone or w.app[s].hs != 1:
                return False
            if w.tls[s]._appSendBuffer:
                return False
            pr = w.prod[s]
            if w.prodreg[s] and pr.paused:
                return False        # nothing is buffered, the transport has room: the producer must be running
        cover("open")
    for s in (0, 1):
        # handshakeCompleted was announced iff the layer considers the handshake done
        if (w.app[s].hs == 1) != bool(w.tls[s]._handshakeDone):
            return False
    if not ok:
        return False
    return True


def _run(tls13, eof3, pre, ops, ps=None, late=False):
    """ops: (o, s, x, y).  o: 0 application of side s writes x bytes (the engine's next send accepts y bytes),
    1 x bytes of the ciphertext in flight from side s are delivered (or the end of the stream), 2 application
    of side s calls loseConnection, 3 nothing, 4 the ciphertext in flight from side s is damaged, 5 the producer writes x bytes (if it is not paused), 6 the
    producer is unregistered, 7 / 8 the underlying transport pauses / resumes the producer, 9 the underlying
    transport of side s is lost abruptly.  ps: side that registers a push producer right after the prefix
    (operations 5-8 refer to it)."""
    w = _World(tls13, eof3, _concrete(pre, 4))
    finish_producers = ps is not None
    if finish_producers:
        ps = 1 if ps else 0
        w.late = late
        w.register(ps)
    if not w.quick_ok():
        return False
    ok = True
    for (o, s, x, y) in ops:
        o = _opcode(o)
        if o == 3:
            continue
        if o == 0:
            w.write(1 if s else 0, x, y)
        elif o == 1:
            w.deliver(1 if s else 0, x)
        elif o == 2:
            w.lose(1 if s else 0)
        elif o == 5:
            w.produce(ps, x, y)
        elif o == 6:
            w.unregister(ps)
        elif o == 7:
            w.tpause(ps, True)
        elif o == 8:
            w.tpause(ps, False)
        elif o == 9:
            w.fail(1 if s else 0)
        elif o == 4:
            w.corrupt(1 if s else 0)
        else:
            continue
        if not w.quick_ok():
            return False
    cover("ops")
    # the prefix property holds before the drain as well (nothing invented, nothing out of order)
    for s in (0, 1):
        r, f = w.received(s)
        ok = rope.band(ok, f)
    for s in (0, 1):
        if w.tpaused[s]:
            w.tpause(s, False)      # the transports have room again
    if not w.drain(8):
        return False                # the system never comes to rest
    if not w.quick_ok():
        return False
    if finish_producers:
        # the producers finish: whatever they still want to say is said, then they unregister
        for s in (0, 1):
            if w.prodreg[s] and not w.prod[s].stopped and w.is_open(s):
                if w.prod[s].paused:
                    if w.eng[s].hs_done and not w.failed:
                        return False    # left paused although the handshake is over and the transport has room
                else:
                    w.write(s, 7, 7)
        for s in (0, 1):
            w.unregister(s)
        if not w.drain(8):
            return False
    for s in (0, 1):
        if w.eng[s].hs_done and w.eng[1 - s].hs_done:
            cover("hs")
    cover()
    return _final(w, ok)


# ---- harnesses ---------------------------------------------------------------------------------------------------

def _all(*cs):
    """conjunction of (symbolic) bools as ONE z3 term, no forks"""
    lib = rope._chlib()
    if lib is None:
        for x in cs:
            if not x:
                return False
        return True
    z3, SInt, SBool, NoTracing = lib
    with NoTracing():
        terms = []
        rest = []
        for x in cs:
            if isinstance(x, SBool):
                terms.append(x.var)
            elif x is True:
                pass
            elif x is False:
                return False
            else:
                rest.append(x)
        if not rest:
            if not terms:
                return True
            return SBool(z3.And(*terms))
    ok = True
    for x in cs:
        ok = rope.band(ok, x)
    return ok


def _rng(lo, x, hi):
    return rope.band(lo <= x, x <= hi)


def _op_pre(o, x, y, lo, hi):
    return _all(lo <= o, o <= hi, 1 <= x, x <= B['cap'], 1 <= y, y <= B['cap'])


def history(tls13: bool, eof3: bool, pre: int, o0: int, s0: bool, x0: int, y0: int, o1: int, s1: bool, x1: int, y1: int,
            o2: int, s2: bool, x2: int, y2: int, o3: int, s3: bool, x3: int, y3: int) -> bool:
    """
    pre: _all(_rng(0, pre, 4), _op_pre(o0, x0, y0, 0, 2), _op_pre(o1, x1, y1, 0, 3), _op_pre(o2, x2, y2, 0, 3), _op_pre(o3, x3, y3, 0, 3), rope.bor(B['hist'] >= 4, o3 == 3))
    post: _
    """
    return _run(tls13, eof3, pre, ((o0, s0, x0, y0), (o1, s1, x1, y1), (o2, s2, x2, y2), (o3, s3, x3, y3)))


def _pop_pre(o, x, y):
    # producer alphabet: 1 deliver, 2 loseConnection, 3 nothing, 5 produce, 6 unregister, 7 / 8 transport pause / resume
    return _all(1 <= o, o <= 8, o != 4, 1 <= x, x <= B['cap'], 1 <= y, y <= B['cap'])


def history_prod(tls13: bool, eof3: bool, pre: int, ps: bool, late: bool, o0: int, s0: bool, x0: int, y0: int,
                 o1: int, s1: bool, x1: int, y1: int, o2: int, s2: bool, x2: int, y2: int,
                 o3: int, s3: bool, x3: int, y3: int) -> bool:
    """
    pre: _all(_rng(0, pre, 4), _pop_pre(o0, x0, y0), _pop_pre(o1, x1, y1), _pop_pre(o2, x2, y2), _pop_pre(o3, x3, y3), o0 != 3, rope.bor(B['phist'] >= 4, o3 == 3), rope.bor(B['phist'] >= 3, o2 == 3))
    post: _
    """
    return _run(tls13, eof3, pre, ((o0, s0, x0, y0), (o1, s1, x1, y1), (o2, s2, x2, y2), (o3, s3, x3, y3)), ps, late)


def _fop_pre(o, x, y):
    # alphabet with failures: 0 write, 1 deliver, 2 loseConnection, 3 nothing, 4 ciphertext in flight damaged,
    # 9 abrupt loss of the underlying connection
    return _all(0 <= o, o <= 9, rope.bor(o <= 4, o == 9), 1 <= x, x <= B['cap'], 1 <= y, y <= B['cap'])


def history_fail(tls13: bool, eof3: bool, pre: int, o0: int, s0: bool, x0: int, y0: int, o1: int, s1: bool, x1: int,
                 y1: int, o2: int, s2: bool, x2: int, y2: int) -> bool:
    """
    pre: _all(_rng(0, pre, 4), _fop_pre(o0, x0, y0), _fop_pre(o1, x1, y1), _fop_pre(o2, x2, y2), o0 != 3, o1 != 3, rope.bor(rope.bor(o0 == 9, o0 == 4), rope.bor(rope.bor(o1 == 9, o1 == 4), rope.bor(o2 == 9, o2 == 4))), rope.bor(B['fhist'] >= 3, o2 == 3))
    post: _
    """
    return _run(tls13, eof3, pre, ((o0, s0, x0, y0), (o1, s1, x1, y1), (o2, s2, x2, y2)))


_PT = [("pre == %d" % p, t) for p in range(5) for t in ("tls13", "not tls13")]


def _hist_shards(tier):
    if tier == "quick":
        return _PT
    return [sh + ("o0 == %d" % a, b2) for sh in _PT for a in range(3) for b2 in ("s0", "not s0")]


def _prod_shards(tier):
    if tier == "quick":
        return _PT
    return [sh + (c,) for sh in _PT for c in ("o0 <= 2", "o0 == 5", "o0 >= 6")]


HARNESSES = [
    H(history, shards=_hist_shards, timeout={"quick": 120, "thorough": 900},
      labels=("end", "ops", "data", "closed", "open", "hs")),
    H(history_prod, shards=_prod_shards,
      timeout={"quick": 120, "thorough": 900}, labels=("end", "ops", "data", "closed", "open", "hs")),
    H(history_fail, shards=_PT, timeout={"quick": 120, "thorough": 900},
      labels=("end", "closed")),
]

if __import__("os").environ.get("VERIF_C17_ONLY"):      # debugging aid: run a single harness
    HARNESSES = [h for h in HARNESSES if h.name == __import__("os").environ["VERIF_C17_ONLY"]]

_N = (3, False, 1, 1)
VECTORS = {
    # (tls13, eof3, pre, (o, s, x, y) * 4); scenarios of twisted/protocols/test/test_tls.py
    "history": [
        # test_writeBeforeHandshake: client writes before anything was exchanged; the drain delivers it
        (False, False, 0, 0, False, 10, 99) + _N + _N + _N,
        # test_writeAfterHandshake / test_multipleWrites, with a short send and a half-delivered record
        (True, False, 4, 0, False, 10, 4, 1, False, 7, 1, 0, False, 3, 3, 1, False, 2, 1),
        # test_loseConnectionAfterHandshake: loseConnection right after a write flushes the data first
        (False, True, 4, 0, True, 100, 100, 2, True, 1, 1) + _N + _N,
        # write before the handshake, then loseConnection before the handshake: data still arrives, then close
        (False, False, 1, 0, True, 10, 4, 2, True, 1, 1) + _N + _N,
        # loseConnection during the handshake with nothing buffered: the connection is aborted
        (True, True, 2, 2, False, 1, 1, 0, True, 5, 5) + _N + _N,
        # both sides close at the same time; data crossing the close_notify still arrives
        (False, False, 4, 0, True, 9, 9, 2, False, 1, 1, 2, True, 1, 1, 1, False, 3, 1),
        # test_writeAfterLoseConnection: dropped
        (True, False, 4, 2, False, 1, 1, 0, False, 5, 5, 1, False, 100, 1, 0, True, 3, 3),
    ],
    "history_prod": [
        # test_streamingProducerPausedInWriteBlockedOnReadMode / Resumed...: producer writes during the handshake
        (False, False, 0, False, False, 5, False, 10, 10, 5, False, 3, 3) + _N + _N,
        # test_streamingProducerLoseConnectionWithProducer: close waits for unregisterProducer
        (True, False, 4, True, False, 2, True, 1, 1, 5, False, 10, 3, 6, False, 1, 1) + _N,
        # test_streamingProducerLoseConnectionWithProducerWBOR
        (False, True, 1, False, True, 5, False, 10, 10, 2, False, 1, 1, 6, False, 1, 1) + _N,
        # test_streamingProducerBothTransportsDecideToPause
        (False, False, 2, True, False, 7, False, 1, 1, 5, False, 4, 4, 8, False, 1, 1, 5, False, 2, 2),
        # fixed defect (1b93569): both sides loseConnection, the close_notify exchange closes the connection of the
        # side with the producer, which then unregisters: AttributeError from _shutdownTLS before the fix
        (False, False, 4, True, True, 2, False, 1, 1, 2, True, 1, 1, 5, False, 16383, 1) + _N,
        (True, False, 0, False, True, 2, False, 1, 1, 8, False, 1, 1) + _N + _N,
    ],
    "history_fail": [
        # test_unexpectedEOF / test_disorderlyShutdown: the peer's transport goes away without close_notify
        (False, False, 4, 0, False, 10, 10, 9, False, 1, 1, 3, False, 1, 1),
        (True, True, 2, 9, True, 1, 1, 0, False, 5, 5, 1, False, 3, 1),
        (False, True, 4, 0, True, 10, 4, 1, True, 8, 1, 9, True, 1, 1),
        # test_handshakeFailure-like: a handshake flight / a data record does not authenticate
        (False, False, 1, 4, True, 1, 1, 1, True, 2, 1, 3, False, 1, 1),
        (True, False, 4, 0, False, 10, 10, 4, False, 1, 1, 0, True, 5, 5),
    ],
}


# ---- the contract model talking to itself on a concrete corpus (no twisted code involved) -----------------------

def _pump(a, b):
    """move everything a produced into b; returns the number of bytes moved"""
    n = 0
    while True:
        try:
            d = a.bio_read(1 << 15)
        except WantReadError:
            return n
        n += len(d)
        b.bio_write(d)


def _raises(exc, f, *a):
    """f(*a) raises exactly exc (any Error subclass when exc is Error)"""
    try:
        f(*a)
    except Error as e:
        return type(e) is exc or exc is Error
    return False


def _model_selftest():
    n = 0
    for tls13 in (False, True):
        for eof3 in (False, True):
            for cut in (0, 1, 2):
                rope.reset()
                link = _Link(tls13, eof3)
                ctx = Context()
                ctx._verif_link = link
                c = Connection(ctx, None)
                s = Connection(ctx, None)
                c.set_connect_state()
                s.set_accept_state()
                # nothing can be sent, received or shut down before the handshake is over
                assert _raises(WantReadError, c.send, rope.span(0, 3)) and _raises(WantReadError, s.recv, 10)
                assert _raises(Error, s.shutdown) and not _raises(WantReadError, s.shutdown) and s.get_shutdown() == 0
                assert _raises(WantReadError, s.bio_read, 10) and _raises(WantReadError, s.do_handshake)
                # the handshake: flights go back and forth; with cut > 0 the first flight arrives in two pieces
                d = c.bio_read(1 << 15)
                assert len(d) == link.flights[0]
                if cut:
                    s.bio_write(d[:cut])
                    assert _raises(WantReadError, s.do_handshake) and _raises(WantReadError, s.bio_read, 10)
                    s.bio_write(d[cut:])
                else:
                    s.bio_write(d)
                rounds = 0
                while not (c.hs_done and s.hs_done):
                    for (x, y) in ((s, c), (c, s)):
                        try:
                            x.do_handshake()
                        except WantReadError:
                            pass
                        _pump(x, y)
                    rounds += 1
                    assert rounds < 6
                assert c.do_handshake() is None and s.do_handshake() is None
                assert [r[0] for r in c.records] == ["hs"] * ((len(link.flights) + 1) // 2)
                assert link.wire_ok is True or bool(link.wire_ok)
                # data: one record per send, short writes, records are atomic for recv
                assert c.send(rope.span(0, 10)) == 10
                c.partial = [4]
                assert c.send(rope.span(10, 30)) == 4
                d = c.bio_read(1 << 15)
                assert len(d) == 2 * _H + 14
                s.bio_write(d[:_H + 9])
                assert _raises(WantReadError, s.recv, 1 << 15)
                s.bio_write(d[_H + 9:_H + 10])
                got = s.recv(1 << 15)
                assert rope.is_span(got, 0, 10) and _raises(WantReadError, s.recv, 1 << 15)
                s.bio_write(d[_H + 10:])
                assert rope.is_span(s.recv(3), 10, 13) and rope.is_span(s.recv(1 << 15), 13, 14)
                assert _raises(WantReadError, s.recv, 1 << 15)
                big = (1 << 14) + 5
                assert c.send(rope.span(100, 100 + big)) == 1 << 14
                assert _pump(c, s) == _MAXWIRE and len(s.recv(1 << 15)) == 1 << 14
                # bio_read honours its size argument
                s.send(rope.span(_ABASE[1], _ABASE[1] + 8))
                assert len(s.bio_read(6)) == 6 and len(s.bio_read(1 << 15)) == _H + 2
                c.arrived = c.arrived + _H + 8      # (those bytes were dropped here; tell the model)
                c.rx += 1
                if cut == 0:
                    # orderly shutdown started by the client; the server still sends data before it answers
                    assert c.shutdown() is False and c.get_shutdown() == SENT_SHUTDOWN
                    assert _raises(Error, c.send, rope.span(0, 1)) and _raises(WantReadError, c.shutdown)
                    assert s.send(rope.span(_ABASE[1] + 8, _ABASE[1] + 9)) == 1
                    _pump(s, c)
                    assert len(c.recv(1 << 15)) == 1        # reading goes on after our close_notify
                    _pump(c, s)
                    assert _raises(ZeroReturnError, s.recv, 1 << 15) and s.get_shutdown() == RECEIVED_SHUTDOWN
                    assert s.shutdown() is True
                    _pump(s, c)
                    assert _raises(ZeroReturnError, c.recv, 1 << 15) and c.shutdown() is True
                    assert c.get_shutdown() == SENT_SHUTDOWN | RECEIVED_SHUTDOWN
                    assert _raises(ZeroReturnError, c.recv, 1 << 15)
                elif cut == 1:
                    # both close at the same time
                    assert c.shutdown() is False and s.shutdown() is False
                    _pump(c, s)
                    _pump(s, c)
                    assert c.shutdown() is True and _raises(ZeroReturnError, s.recv, 1 << 15) and s.shutdown() is True
                else:
                    # truncation: complete records are still readable, then the EOF error of the chosen flavour
                    c.send(rope.span(200, 205))
                    d = c.bio_read(1 << 15)
                    c.send(rope.span(205, 206))
                    d2 = c.bio_read(1 << 15)
                    s.bio_write(d)
                    s.bio_write(d2[:3])
                    s.bio_shutdown()
                    assert len(s.recv(1 << 15)) == 5
                    try:
                        s.recv(1 << 15)
                        raise AssertionError("no EOF error")
                    except SysCallError as e:
                        assert not eof3 and e.args == (-1, "Unexpected EOF")
                    except Error as e:
                        assert eof3 and type(e) is Error and e.args[0][-1][2].startswith("unexpected eof")
                    assert _tls._representsEOF(s._eof_error())
                assert bool(link.wire_ok)
                n += 1
    # a damaged record: Error + fatal alert at the receiver, alert Error at the sender, both stay dead
    link = _Link(True, False)
    ctx = Context()
    ctx._verif_link = link
    c = Connection(ctx, None)
    s = Connection(ctx, None)
    c.set_connect_state()
    s.set_accept_state()
    for i in range(3):
        for (x, y) in ((c, s), (s, c)):
            try:
                x.do_handshake()
            except WantReadError:
                pass
            _pump(x, y)
    assert c.hs_done and s.hs_done
    c.send(rope.span(0, 4))
    d = c.bio_read(1 << 15)
    s.poison = True
    s.bio_write(d[:3])
    assert _raises(WantReadError, s.recv, 10)
    s.bio_write(d[3:])
    assert _raises(Error, s.recv, 10) and _raises(Error, s.recv, 10) and s.dead
    assert _pump(s, c) == _ALERT and _raises(Error, c.recv, 10) and c.dead
    n += 1
    # EOF during the handshake
    link = _Link(False, False)
    ctx = Context()
    ctx._verif_link = link
    s = Connection(ctx, None)
    s.set_accept_state()
    s.bio_shutdown()
    assert _raises(SysCallError, s.do_handshake) and _raises(SysCallError, s.recv, 5)
    return n + 1


def selftest():
    saved = api.MODE
    n = rope.selftest()
    assert api.MODE == saved
    return n + _model_selftest()
