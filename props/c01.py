"""C01 Deferred callback chains compute what a sequential reference interpreter predicts.

A *program* is a list of small ints (one per operation) over a pool of three real Deferreds, plus a
parallel list `bs` of callback behaviour codes and one symbolic int `v` from which the fired values
are derived.  Every operation is executed by the reference interpreter `_Ref` (documented chaining
rules, recursive, ~90 lines) and then on the REAL Deferreds; after every operation the callback
traces and the complete observable state of all three Deferreds are compared.

op = 3 * action + target         target in 0..2 (Deferred d0, d1, d2)
  action 0 callback(v + i)       1 errback(Boom(200 + i))      2 pause()       3 unpause()
         4 addCallback(f_i)      5 addErrback(f_i)             6 addBoth(f_i)  7 addCallbacks(f_i, g_i)
(i = position of the op).  In `program_cbs` and `scenario` only actions (0, 1, 2, 3, 7) exist and the
symbolic op is coded 3 * (index into that tuple) + target, i.e. 12/13/14 = addCallbacks on d0/d1/d2.
Behaviour of f_i = bs[2i], of g_i = bs[2i+1]:
  0 return an int computed from the argument   1 raise Boom(i)   2 return Failure(Boom(100 + i))
  3/4/5 return d0/d1/d2   6 raise Unwind(300 + i), a BaseException that is not an Exception (like
  asyncio.CancelledError / GeneratorExit): it must be turned into a Failure exactly like Boom
Behaviours are decoded only when the callback actually runs, so callbacks that never run do not
multiply paths.
"""
from typing import List, Tuple

from twisted.internet.defer import Deferred
from twisted.python.failure import Failure

from vlib.api import H, cover

PROPERTY = "C01"
LEVEL = "model_checking"
ENCODED = ["twisted.internet.defer:Deferred._runCallbacks", "twisted.internet.defer:Deferred._startRunCallbacks",
           "twisted.internet.defer:Deferred.addCallbacks", "twisted.internet.defer:Deferred.addCallback",
           "twisted.internet.defer:Deferred.addErrback", "twisted.internet.defer:Deferred.addBoth",
           "twisted.internet.defer:Deferred.callback", "twisted.internet.defer:Deferred.errback",
           "twisted.internet.defer:Deferred.pause", "twisted.internet.defer:Deferred.unpause",
           "twisted.internet.defer:Deferred._continuation"]
BOUNDS = {"quick": {"n": 3, "m": 4, "k": 2, "pz": 2}, "thorough": {"n": 4, "m": 5, "k": 3, "pz": 2}}
B = {}
BOUNDS_TEXT = ("3 Deferreds; program: every program of <= n ops over the full alphabet (24 op codes x 7 callback "
               "behaviours per side); program_cbs: every program of <= m ops over {callback, errback, pause, "
               "unpause, addCallbacks(f, g)} (15 op codes, 7 behaviours per side); scenario: 7 fixed 2-4 op "
               "prefixes (waiting on unfired / paused / nested / shared Deferred, failed waiter, paused fired "
               "Deferred with pending pairs) followed by every sequence of k such ops; <= pz pause() calls; fired "
               "values v+i for every int v; each program is followed by a fixed draining epilogue (unpause all, "
               "fire all unfired) and model and real state are compared after every single op, so shorter "
               "programs are covered as prefixes")
OUTSIDE = ["programs longer than the bounds (the property text speaks of ~6 Deferreds / ~20 ops): not explored",
           "callbacks that re-enter the Deferred API (add callbacks / fire / pause from inside a callback): the "
           "_runningCallbacks guard is not exercised",
           "programs the documentation declares invalid are excluded: firing a Deferred twice, unpause() without "
           "a matching pause(), a callback returning its own Deferred, a cycle of Deferreds waiting for each other",
           "Deferred.debug / setDebugging(True), callback extra args/kwargs, chainDeferred, cancel (C03), timeouts",
           "names are canonical (Deferreds numbered in order of first use as a target): sound because the pool "
           "Deferreds are created identical; more than 3 Deferreds are not explored"]
ASSUMPTIONS = ["the reference interpreter _Ref (recursive: 'when the Deferred you wait for gets a result, take it "
               "and resume') is the specification of the documented chaining rules",
               "op and behaviour codes outside their range denote the nearest valid code (clamping), so every "
               "argument tuple denotes a program"]
EXPLANATION = ("symbolic op-code programs run on three real Deferreds and, in lockstep, on a reference interpreter of "
               "the documented chaining rules; traces (callback, side, argument), results, pause counts, pending "
               "callback counts and _chainedTo compared after every op and after a draining epilogue")

ND = 3


class _Boom(Exception):
    pass


class _Unwind(BaseException):
    """raised by behaviour 6: not an Exception (and not one of CrossHair's control exceptions)"""


class _Invalid(Exception):
    """raised by the reference interpreter for programs the documentation declares invalid"""


def _c(x, lo, hi):
    """concretise a symbolic int known to be in range(lo, hi): one path per value (the solver
    drives the case split; binary search keeps the number of symbolic comparisons small)"""
    while hi - lo > 1:
        mid = (lo + hi) // 2
        if x < mid:
            hi = mid
        else:
            lo = mid
    return lo


def _val(cbid, a):
    # value returned by a 'return value' callback: depends on the argument it received
    if a[0] == "I":
        return a[1] + 10 * (cbid + 1)
    return 1000 + 10 * cbid + (a[1] if a[0] == "F" else 0)


class _Ref:
    """Reference interpreter of the documented chaining rules.

    Result of a Deferred: ('U',0) none yet, ('I',int), ('N',0) None, ('F',tag) Failure, ('D',j)
    waiting for Deferred j.  A callback list entry is ('U', ok, err) with ok/err = (cbid, side) or
    None (pass through), or ('C', k): hand the result to Deferred k, which was waiting for it.
    """

    def __init__(self, beh):
        self.beh = beh
        self.called = [False] * ND
        self.res = [("U", 0)] * ND
        self.paused = [0] * ND          # user pauses + 1 while waiting for another Deferred
        self.upz = [0] * ND             # user pauses only
        self.cbs = [[] for _ in range(ND)]
        self.chained = [None] * ND
        self.trace = []

    def add(self, i, ok, err):
        self.cbs[i].append(("U", ok, err))
        if self.called[i]:
            self.run(i)

    def fire(self, i, res):
        if self.called[i]:
            raise _Invalid("fired twice")
        self.called[i] = True
        self.res[i] = res
        self.run(i)

    def pause(self, i):
        self.paused[i] += 1
        self.upz[i] += 1

    def unpause(self, i):
        if self.upz[i] == 0:
            raise _Invalid("unpause without pause")
        self.upz[i] -= 1
        self.paused[i] -= 1
        if self.paused[i] == 0 and self.called[i]:
            self.run(i)

    def run(self, i):
        if self.paused[i]:
            return
        self.chained[i] = None
        while self.cbs[i]:
            e = self.cbs[i].pop(0)
            if e[0] == "C":
                # Deferred k returned us from one of its callbacks: it takes our result and resumes
                k = e[1]
                self.res[k] = self.res[i]
                self.res[i] = ("N", 0)
                self.paused[k] -= 1
                self.run(k)
                continue
            fn = e[2] if self.res[i][0] == "F" else e[1]
            if fn is None:
                continue
            arg = self.res[i]
            self.trace.append((fn[0], fn[1], arg))
            b = self.beh(fn[0], fn[1])
            if b == 0:
                self.res[i] = ("I", _val(fn[0], arg))
            elif b == 1:
                self.res[i] = ("F", fn[0])
            elif b == 2:
                self.res[i] = ("F", 100 + fn[0])
            elif b == 6:
                # whatever a callback raises, Exception or not, becomes the Failure the next errback gets
                self.res[i] = ("F", 300 + fn[0])
            else:
                j = b - 3
                if j == i:
                    raise _Invalid("callback returned its own Deferred")
                if self.called[j] and not self.paused[j] and self.res[j][0] != "D":
                    # it already has a result: take it and go on
                    self.res[i] = self.res[j]
                    self.res[j] = ("N", 0)
                else:
                    k = j
                    while self.res[k][0] == "D":
                        k = self.res[k][1]
                        if k == i:
                            raise _Invalid("cycle of Deferreds waiting for each other")
                    self.res[i] = ("D", j)
                    self.paused[i] += 1
                    self.chained[i] = j
                    self.cbs[j].append(("C", i))
                    return


class _World:
    def __init__(self, v, bs, fixed):
        self.v = v
        self.bs = bs
        self.ds = [Deferred() for _ in range(ND)]
        self.trace = []
        self.behc = dict(fixed)
        self.draining = False
        self.checked = 0
        self.seen = []
        self.ref = _Ref(self.beh)

    def beh(self, cbid, side):
        key = (cbid, side)
        if key not in self.behc:
            # decoded when the callback runs for the first time (shared by model and real side)
            self.behc[key] = 0 if self.draining else _c(self.bs[2 * cbid + side], 0, 7)
        return self.behc[key]

    def abs(self, x):
        if isinstance(x, Failure):
            return ("F", x.value.args[0])
        if x is None:
            return ("N", 0)
        if isinstance(x, Deferred):
            for k in range(ND):
                if self.ds[k] is x:
                    return ("D", k)
            return ("D", -1)
        return ("I", x)

    def fn(self, cbid, side):
        def f(arg):
            a = self.abs(arg)
            self.trace.append((cbid, side, a))
            b = self.beh(cbid, side)
            if b == 0:
                return _val(cbid, a)
            if b == 1:
                raise _Boom(cbid)
            if b == 2:
                return Failure(_Boom(100 + cbid))
            if b == 6:
                raise _Unwind(300 + cbid)
            return self.ds[b - 3]
        return f

    def same(self, final=False):
        """observable state of the real Deferreds == state of the reference interpreter.
        int values (symbolic) are compared once: when they reach a callback, or at the very end."""
        r = self.ref
        if len(self.trace) != len(r.trace):
            return False
        for n in range(self.checked, len(self.trace)):
            x, y = self.trace[n], r.trace[n]
            if x[0] != y[0] or x[1] != y[1] or x[2][0] != y[2][0] or x[2][1] != y[2][1]:
                return False
            if (x[0], x[1]) in self.seen:
                return False        # a callback ran twice
            self.seen.append((x[0], x[1]))
        self.checked = len(self.trace)
        for k in range(ND):
            d = self.ds[k]
            if d.called != r.called[k] or d.paused != r.paused[k]:
                return False
            if len(d.callbacks) != len(r.cbs[k]):
                return False
            if d.called:
                a = self.abs(d.result)
                if a[0] != r.res[k][0]:
                    return False
                if (final or a[0] != "I") and a[1] != r.res[k][1]:
                    return False
            elif hasattr(d, "result"):
                return False
            ch = None if d._chainedTo is None else self.abs(d._chainedTo)[1]
            if ch != r.chained[k]:
                return False
        return True

    def step(self, i, op):
        """run op number i on the reference interpreter, then on the real Deferreds.
        True/False: they agree / disagree afterwards; None: the program is invalid at this op."""
        t = op % 3
        a = op // 3
        r = self.ref
        d = self.ds[t]
        ok = (i, 0)
        try:
            if a == 0:
                r.fire(t, ("I", self.v + i))
            elif a == 1:
                r.fire(t, ("F", 200 + i))
            elif a == 2:
                r.pause(t)
            elif a == 3:
                r.unpause(t)
            elif a == 4:
                r.add(t, ok, None)
            elif a == 5:
                r.add(t, None, ok)
            elif a == 6:
                r.add(t, ok, ok)
            else:
                r.add(t, ok, (i, 1))
        except _Invalid:
            return None
        try:
            if a == 0:
                d.callback(self.v + i)
            elif a == 1:
                d.errback(_Boom(200 + i))
            elif a == 2:
                d.pause()
            elif a == 3:
                d.unpause()
            elif a == 4:
                d.addCallback(self.fn(i, 0))
            elif a == 5:
                d.addErrback(self.fn(i, 0))
            elif a == 6:
                d.addBoth(self.fn(i, 0))
            else:
                d.addCallbacks(self.fn(i, 0), self.fn(i, 1))
        except (_Boom, _Unwind):
            return False            # nothing a callback raises may escape from the Deferred API
        return self.same()

    def drain(self, i):
        """fixed epilogue: undo the user's pauses and fire what is still unfired, so that every
        callback still pending runs (callbacks that run only now all 'return a value': no new case
        split).  Shows order and arguments of the callbacks left in the lists."""
        self.draining = True
        r = self.ref
        todo = []
        for t in range(ND):
            todo += [9 + t] * r.upz[t]
        for t in range(ND):
            if not r.called[t]:
                todo.append(t)
        for op in todo:
            x = self.step(i, op)
            i += 1
            if not x:
                return x
        for t in range(ND):
            if not r.called[t] or r.paused[t] or r.cbs[t]:
                return False
        return self.same(True)

    def finish(self):
        # consume failures so that nothing is logged at garbage collection
        for d in self.ds:
            d.callbacks[:] = []
            if d._debugInfo is not None:
                d._debugInfo.failResult = None


def _canon(ops):
    """Deferreds are named in order of first use as a target (they are created identical)"""
    mx = -1
    for op in ops:
        t = op % 3
        if t > mx + 1:
            return False
        if t > mx:
            mx = t
    return True


def _pauses(ops):
    n = 0
    for op in ops:
        if op // 3 == 2:
            n += 1
    return n


FULL = (0, 1, 2, 3, 4, 5, 6, 7)
CBS = (0, 1, 2, 3, 7)


# Programs are passed as fixed-size tuples of symbolic ints (a symbolic list costs ~1.5 ms per
# element access in CrossHair); only the first B[...] entries are used, the rest is ignored.
T6 = Tuple[int, int, int, int, int, int]
T14 = Tuple[int, int, int, int, int, int, int, int, int, int, int, int, int, int]


def _go(v, nops, sops, bs, acts, prefix=(), fixed=()):
    """prefix: concrete ops run first (coded 3*action+target); sops[:nops]: the symbolic ops, coded
    3*(index into acts)+target; a value o outside 0..3*len(acts)-1 means min(max(o,0),3*len(acts)-1).
    Each op is decoded right before it is executed."""
    ops = list(prefix)
    w = _World(v, bs, fixed)
    try:
        for i in range(len(prefix) + nops):
            if i >= len(prefix):
                c = _c(sops[i - len(prefix)], 0, 3 * len(acts))     # concrete from here on
                ops.append(3 * acts[c // 3] + c % 3)
                if _pauses(ops) > B['pz'] or (not prefix and not _canon(ops)):
                    return True             # outside the precondition
            r = w.step(i, ops[i])
            if r is None:
                return True                 # invalid program: outside the precondition
            if not r:
                return False
        cover()
        r = w.drain(len(ops))
        return True if r is None else r
    finally:
        w.finish()


def program(v: int, ops: T6, bs: T14) -> bool:
    """
    pre: True
    post: _
    """
    return _go(v, B['n'], ops, bs, FULL)


def program_cbs(v: int, ops: T6, bs: T14) -> bool:
    """
    pre: True
    post: _
    """
    return _go(v, B['m'], ops, bs, CBS)


# scenario prefixes: (ops, fixed behaviours {(position, side): code}); Deferreds left in a state that
# takes 3-4 operations to reach
SCEN = [
    ([21, 0], {(0, 0): 4, (0, 1): 0}),                                  # d0 waits for unfired d1
    ([6, 0, 22, 1], {(2, 0): 3, (2, 1): 0}),                            # d1 waits for fired, paused d0
    ([21, 22, 0, 1], {(0, 0): 4, (0, 1): 0, (1, 0): 5, (1, 1): 0}),     # d0 waits for d1 waits for d2
    ([21, 0, 6], {(0, 0): 4, (0, 1): 0}),                               # d0 waits for d1 and is paused
    ([21, 22, 0, 1], {(0, 0): 5, (0, 1): 0, (1, 0): 5, (1, 1): 0}),     # d0 and d1 both wait for d2
    ([21, 3], {(0, 0): 0, (0, 1): 4}),                                  # failed d0: errback returned d1
    ([6, 0, 21, 21], {}),                                               # fired paused d0, 2 pending pairs
]
PMAX = 4


def scenario(sc: int, v: int, ops: T6, bs: T14) -> bool:
    """
    pre: 0 <= sc < len(SCEN)
    post: _
    """
    pre, fixed = SCEN[_c(sc, 0, len(SCEN))]
    return _go(v, B['k'], ops, bs, CBS, pre, fixed.items())


_Z = (0,) * 14
VECTORS = {
    # d0.addCallbacks(f->d1); d0.callback; d1.callback: classic chaining on an unfired Deferred
    "program": [(5, (21, 0, 1, 0, 0, 0), (4,) + _Z[1:]),
                # errback, addErrback(returns value), addCallback
                (-3, (3, 15, 12, 0, 0, 0), _Z),
                # addBoth raising, then addErrback on the fired Deferred
                (0, (18, 0, 15, 0, 0, 0), (1,) + _Z[1:]),
                # addCallback raising a non-Exception BaseException, addErrback sees it, then fire
                (2, (12, 15, 0, 0, 0, 0), (6,) + _Z[1:])],
    # pause d0, fire d0, d1.addCallbacks(f->d0), fire d1: waits for the paused Deferred, no result stealing
    "program_cbs": [(7, (6, 0, 13, 1, 0, 0), (0, 0, 0, 0, 3) + _Z[5:]),
                    # already fired inner Deferred: result is taken at once
                    (7, (0, 13, 1, 6, 0, 0), (0, 0, 3) + _Z[3:])],
    # (3, ...): d0 waits for d1 and is paused too; d1 gets a callback and fires: that callback must run
    # (regression vector for the defect fixed in /repo eab5246)
    "scenario": [(k, 1, (13, 2, 0, 0, 0, 0), _Z) for k in range(7)] + [(3, 0, (13, 1, 0, 0, 0, 0), _Z)],
}


def _bucket(k, lo, hi, size):
    # ops[k] in [lo, hi) under the clamping convention
    if lo == 0:
        return "ops[%d] < %d" % (k, hi)
    if hi == size:
        return "ops[%d] >= %d" % (k, lo)
    return "%d <= ops[%d] < %d" % (lo, k, hi)


def _first(nacts):
    """case split on the first op: action index ai on d0 (unpause, index 3, is invalid as a first op; targets
    d1/d2 are not canonical): one shard per valid code and one for all the codes rejected at once"""
    size = 3 * nacts
    good = [3 * ai for ai in range(nacts) if ai != 3]
    sh = [(_bucket(0, c, c + 1, size),) for c in good]
    rest = " and ".join("ops[0] != %d" % c for c in good[1:]) + " and ops[0] > 0"
    return sh, rest


def _shards(nacts, depth, heavy=()):
    """first op as above; ops 1..depth-1 split by action index; prefixes whose action indexes are listed
    in `heavy` are split once more (load balancing only: the union is the same set of programs)"""
    size = 3 * nacts
    sh, rest = _first(nacts)
    firsts = [ai for ai in range(nacts) if ai != 3]
    sh = [(x, (ai,)) for x, ai in zip(sh, firsts)]                   # (conditions, action indexes so far)
    for k in range(1, depth):
        sh = [(x + (_bucket(k, 3 * ai, 3 * ai + 3, size),), p + (ai,)) for x, p in sh for ai in range(nacts)]
    out = []
    for x, p in sh:
        if p in heavy:
            out += [x + (_bucket(depth, 3 * ai, 3 * ai + 3, size),) for ai in range(nacts)]
        else:
            out.append(x)
    return out + [(rest,)]


_HEAVY = ((0, 4), (1, 4), (4, 0), (4, 1), (4, 4))    # add-first or add-second histories (CBS action indexes)


HARNESSES = [
    H(program, shards=lambda tier: _shards(8, 1 if tier == "quick" else 2),
      timeout={"quick": 150, "thorough": 1200}),
    H(program_cbs, shards=lambda tier: _shards(5, 2, _HEAVY) if tier == "quick" else _shards(5, 3),
      timeout={"quick": 150, "thorough": 1200}),
    H(scenario, shards=lambda tier: [("sc == %d" % k,) + ((_bucket(0, 3 * ai, 3 * ai + 3, 15),) if tier != "quick" else ())
                                     for k in range(len(SCEN)) for ai in (range(5) if tier != "quick" else (0,))],
      timeout={"quick": 150, "thorough": 1200}),
]
