"""C55 log formatting never raises: formatEvent / eventAsText / formatEventAsClassicLogText /
formatUnformattableEvent (and twisted.python.log.textFromEventDict / _safeFormat) return text for any
event - hostile values, malformed format strings, byte formats, failures, odd system fields.

Engine E1 (native symbolic `str`): the format string is SYMBOLIC.  The two C entry points by which
string.Formatter reads a format string (`_string.formatter_parser`, `_string.formatter_field_name_split`)
are replaced, under the solver only, by pure-Python ports of CPython's MarkupIterator / FieldNameIterator
(validated in selftest() against the C functions on every string of length <= 4 over the harness
alphabet, same tuples / same exception type and message); everything above them (string.Formatter._vformat,
get_field, twisted's CallMapping / PotentialCallWrapper / keycall / flatFormat / _formatEvent /
formatUnformattableEvent / eventAsText) is the real Python code run on the symbolic string.  Event
values come from a solver-chosen menu of hostile objects.  Replay runs the plain interpreter with the
real C functions.
"""
import os
import string as _stringmod
import sys

from twisted.logger import _flatten as _FL
from twisted.logger import _format as F
from twisted.logger import LogLevel
from twisted.python import log as _tlog
from twisted.python import reflect as _reflect
from twisted.python.failure import Failure

from vlib import api
from vlib.api import H, cover

PROPERTY = "C55"
LEVEL = "model_checking"
ENCODED = ["twisted.logger._format:formatEvent", "twisted.logger._format:_formatEvent",
           "twisted.logger._format:formatUnformattableEvent", "twisted.logger._format:eventAsText",
           "twisted.logger._format:formatEventAsClassicLogText", "twisted.logger._format:formatWithCall",
           "twisted.logger._format:keycall", "twisted.logger._format:PotentialCallWrapper",
           "twisted.logger._format:CallMapping", "twisted.logger._format:_formatTraceback",
           "twisted.logger._format:_formatSystem", "twisted.logger._format:formatTime",
           "twisted.logger._flatten:flatFormat", "twisted.logger._flatten:flattenEvent",
           "twisted.logger._flatten:KeyFlattener",
           "twisted.python.log:textFromEventDict", "twisted.python.log:_safeFormat",
           "twisted.python.reflect:safe_repr", "twisted.python.reflect:safe_str"]
BOUNDS = {"quick": {"n": 3, "m": 3, "f": 2}, "thorough": {"n": 4, "m": 4, "f": 3}}
B = {}

ALPHA = "{}!:.[]()ab0rs"

# ---------------------------------------------------------------------------------------------
# pure-Python ports of the C format-string parsers (CPython 3.12 Objects/stringlib/unicode_format.h)


def _isdec(ch):
    if "0" <= ch <= "9":
        return True
    if ch < "\x80":
        return False
    return ch.isdecimal()


def _get_integer(s):
    if len(s) == 0:
        return -1
    for ch in s:
        if not _isdec(ch):
            return -1
    acc = 0
    for ch in s:
        if "0" <= ch <= "9":
            d = ord(ch) - 48
        else:
            import unicodedata
            d = unicodedata.decimal(ch)
        if acc > (2 ** 63 - 1 - d) // 10:
            raise ValueError("Too many decimal digits in format string")
        acc = acc * 10 + d
    return acc


def py_formatter_parser(s):
    if not isinstance(s, str):
        raise TypeError("expected str, got %s" % type(s).__name__)
    return _parse_iter(s)


def _parse_iter(s):
    n = len(s)
    i = 0
    while i < n:
        start = i
        c = None
        markup = False
        while i < n:
            c = s[i]
            i += 1
            if c == "{" or c == "}":
                markup = True
                break
        at_end = i >= n
        ln = i - start
        if markup:
            if c == "}" and (at_end or s[i] != "}"):
                raise ValueError("Single '}' encountered in format string")
            if at_end and c == "{":
                raise ValueError("Single '{' encountered in format string")
            if not at_end:
                if s[i] == c:
                    i += 1
                    markup = False
                else:
                    ln -= 1
        literal = s[start:start + ln]
        if not markup:
            yield (literal, None, None, None)
            continue
        # ---- parse_field
        c = ""
        fstart = i
        while i < n:
            c = s[i]
            i += 1
            if c == "{":
                raise ValueError("unexpected '{' in field name")
            if c == "[":
                while i < n and s[i] != "]":
                    i += 1
                continue
            if c == "}" or c == ":" or c == "!":
                break
        field_name = s[fstart:i - 1]
        conversion = None
        spec = ""
        if c == "!" or c == ":":
            done = False
            if c == "!":
                if i >= n:
                    raise ValueError("end of string while looking for conversion specifier")
                conversion = s[i]
                i += 1
                if i < n:
                    c = s[i]
                    i += 1
                    if c == "}":
                        done = True
                    elif c != ":":
                        raise ValueError("expected ':' after conversion specifier")
            if not done:
                sstart = i
                count = 1
                found = False
                while i < n:
                    c = s[i]
                    i += 1
                    if c == "{":
                        count += 1
                    elif c == "}":
                        count -= 1
                        if count == 0:
                            spec = s[sstart:i - 1]
                            found = True
                            break
                if not found:
                    raise ValueError("unmatched '{' in format spec")
        elif c != "}":
            raise ValueError("expected '}' before end of string")
        yield (literal, field_name, spec, conversion)


def py_formatter_field_name_split(s):
    if not isinstance(s, str):
        raise TypeError("expected str, got %s" % type(s).__name__)
    n = len(s)
    i = 0
    while i < n:
        c = s[i]
        if c == "[" or c == ".":
            break
        i += 1
    first = s[:i]
    idx = _get_integer(first)
    return (idx if idx != -1 else first), _rest_iter(s, i)


def _rest_iter(s, i):
    n = len(s)
    while i < n:
        c = s[i]
        i += 1
        if c == ".":
            st = i
            while i < n and s[i] != "[" and s[i] != ".":
                i += 1
            name = s[st:i]
            if len(name) == 0:
                raise ValueError("Empty attribute in format string")
            yield (True, name)
        elif c == "[":
            st = i
            seen = False
            while i < n:
                c = s[i]
                i += 1
                if c == "]":
                    seen = True
                    break
            if not seen:
                raise ValueError("Missing ']' in format string")
            name = s[st:i - 1]
            idx = _get_integer(name)
            if len(name) == 0:
                raise ValueError("Empty attribute in format string")
            yield (False, idx if idx != -1 else name)
        else:
            raise ValueError("Only '.' or '[' may follow ']' in format field specifier")


class _PyString:
    """stand-in for the `_string` module as seen by Lib/string.py"""
    formatter_parser = staticmethod(py_formatter_parser)
    formatter_field_name_split = staticmethod(py_formatter_field_name_split)


_C_STRING = _stringmod._string if not isinstance(_stringmod._string, type) else None


def _run_parser(f, s):
    out = []
    try:
        r = f(s)
        if isinstance(r, tuple):
            out.append(("first", r[0]))
            r = r[1]
        for item in r:
            out.append(item)
    except Exception as e:  # noqa
        out.append(("EXC", type(e).__name__, str(e)))
    return out


def selftest():
    """the pure-Python parsers against the C ones: every string of length <= 4 over ALPHA, plus
    longer / non-ASCII samples; same yielded tuples or same exception type + message"""
    import itertools
    import _string as c
    n = 0
    corpus = []
    for ln in range(0, 5):
        corpus.extend("".join(t) for t in itertools.product(ALPHA, repeat=ln))
    # length 5-6: every string over the 6 structural characters + one letter
    for ln in (5, 6):
        corpus.extend("".join(t) for t in itertools.product("{}!:[a", repeat=ln))
    corpus += ["{a.b[0].c()!r:>{w}}", "{0}{1}", "{}{}", "{a[b]c}", "{a[]}", "{a.}", "{a..b}", "{٣}", "{a[٣]}",
               "{99999999999999999999}", "{a[99999999999999999999]}", "{a!é}", "€{{x}}", "{a:{b:{c}}}",
               "{a!r:{b}}", "{:}", "{!}", "{!r}", "{a[}]}", "{a[{]}", "{a.b(}", "x" * 40 + "{" + "y" * 40 + "}"]
    for s in corpus:
        a = _run_parser(c.formatter_parser, s)
        b = _run_parser(py_formatter_parser, s)
        assert a == b, ("formatter_parser", s, a, b)
        a = _run_parser(c.formatter_field_name_split, s)
        b = _run_parser(py_formatter_field_name_split, s)
        assert a == b, ("formatter_field_name_split", s, a, b)
        n += 2
    for bad in (b"x", None, 5):
        for f, g in ((c.formatter_parser, py_formatter_parser),
                     (c.formatter_field_name_split, py_formatter_field_name_split)):
            assert _run_parser(f, bad) == _run_parser(g, bad), (bad, _run_parser(f, bad), _run_parser(g, bad))
            n += 1
    return n


# ---------------------------------------------------------------------------------------------
# solver-side installation (never in replay: api.MODE == "real" keeps every C function)



def _install_builtin_checks():
    """CrossHair 0.0.110 replaces the builtins repr() / str() / format() by direct calls of
    the special method and drops CPython's check that the result is a str (`__repr__ returned
    non-string`, `__str__ returned non-string`, `__format__ must return a str`): hostile objects that
    return non-text would silently behave differently under the solver.  The checks are put back, and
    format() no longer realises the object / the format spec when the object's __format__ is Python
    code or object.__format__ (= `str(obj)` for an empty spec, TypeError otherwise)."""
    import types
    import crosshair.core_and_libs  # noqa: F401  (fills the patch registry)
    from crosshair import core as _core
    from crosshair.libimpl import builtinslib as bl
    from crosshair.tracers import NoTracing
    reg = _core._PATCH_REGISTRATIONS
    ch_repr, ch_format = reg[repr], reg[format]

    def _tname(x):
        with NoTracing():
            return type(x).__name__

    def p_repr(obj):
        r = ch_repr(obj)
        if not isinstance(r, str):
            raise TypeError("__repr__ returned non-string (type %s)" % _tname(r))
        return r

    def p_str(*a, **kw):
        with NoTracing():
            one = len(a) == 1 and not kw
            sym = one and isinstance(a[0], bl.AnySymbolicStr)
        if not one:
            return str(*a, **kw)     # called from this patch: resolves to the real constructor
        if sym:
            return a[0]
        r = bl.invoke_dunder(a[0], "__str__")
        if not isinstance(r, str):
            raise TypeError("__str__ returned non-string (type %s)" % _tname(r))
        return r

    def p_format(obj, spec=""):
        if not isinstance(spec, str):
            raise TypeError("format() argument 2 must be str, not %s" % _tname(spec))
        with NoTracing():
            meth = None
            if not isinstance(obj, bl.CrossHairValue):
                for klass in type(obj).__mro__:
                    if "__format__" in klass.__dict__:
                        meth = klass.__dict__["__format__"]
                        break
            kind = 0
            if meth is object.__format__:
                kind = 1
            elif isinstance(meth, types.FunctionType):
                kind = 2
        if kind == 1:
            if len(spec) > 0:
                raise TypeError("unsupported format string passed to %s.__format__" % _tname(obj))
            r = p_str(obj)
        elif kind == 2:
            r = meth(obj, spec)
        else:
            r = ch_format(obj, spec)
        if not isinstance(r, str):
            raise TypeError("__format__ must return a str, not %s" % _tname(r))
        return r

    ch_getattr = reg[getattr]

    def p_getattr(obj, name, *default):
        # getattr() with a symbolic attribute name on a plain object: compare the name with the
        # attributes the object has (one fork per candidate of the same length) and fall through
        # to the class's __getattr__ hook / AttributeError with the name still symbolic, instead
        # of one path per concrete name
        with NoTracing():
            sym = isinstance(name, bl.AnySymbolicStr) and not isinstance(obj, bl.CrossHairValue)
            names, hook = (), None
            if sym:
                ga = None
                for klass in type(obj).__mro__:
                    if ga is None and "__getattribute__" in klass.__dict__:
                        ga = klass.__dict__["__getattribute__"]
                    if hook is None and "__getattr__" in klass.__dict__:
                        hook = klass.__dict__["__getattr__"]
                sym = ga is object.__getattribute__
                if sym:
                    names = [k for k in dir(obj) if type(k) is str]
        if not sym:
            return ch_getattr(obj, name, *default)
        n = len(name)
        for k in names:
            if len(k) == n and name == k:
                return getattr(obj, k, *default)
        try:
            if hook is not None:
                return hook(obj, name)
            raise AttributeError("'%s' object has no attribute <symbolic name>" % _tname(obj))
        except AttributeError:
            if default:
                return default[0]
            raise

    reg[repr], reg[str], reg[format], reg[getattr] = p_repr, p_str, p_format, p_getattr


_cf_seen = []
_tracing_now = lambda: False  # noqa: E731  (replaced under the solver)


def _cf_check():
    """a CrossHair path-control exception was created while the real code ran and did not reach the
    harness (some `except BaseException` on the way swallowed it): hand it back to CrossHair"""
    if _cf_seen:
        e = _cf_seen[0]
        del _cf_seen[:]
        raise e


if api.MODE == "sym":
    _stringmod._string = _PyString
    try:
        from crosshair.util import ControlFlowException as _CFE, NotDeterministic as _ND
        _CFE = (_CFE, _ND)
        _cfe_init = _CFE[0].__init__

        def _cfe_record(self, *a, **k):
            _cf_seen.append(self)
            _cfe_init(self, *a, **k)
        _CFE[0].__init__ = _cfe_record
    except ImportError:  # vector validation may run without crosshair importable
        _CFE = ()

    # twisted's `except BaseException` clauses on the formatting paths would swallow CrossHair's
    # path-control exceptions and turn them into text: re-raise them at the two helpers those
    # clauses hand the exception to (the real helpers still run for every other exception)
    _orig_fue = F.formatUnformattableEvent

    def _fue_guard(event, error):
        if isinstance(error, _CFE):
            raise error
        return _orig_fue(event, error)
    _fue_guard.__wrapped__ = _orig_fue
    F.formatUnformattableEvent = _fue_guard

    try:
        from crosshair.tracers import NoTracing as _NoTracing, is_tracing as _tracing_now
    except ImportError:
        _tracing_now = lambda: False  # noqa

    _orig_sf = _reflect._safeFormat

    def _sf_guard(formatter, o):
        ev = sys.exc_info()[1]
        if isinstance(ev, _CFE):
            raise ev
        # the real helper, but outside CrossHair's tracing: traceback.print_exc() builds a set of
        # file names, which the tracer turns into a lazily-unioned symbolic set that overflows the
        # stack on deep tracebacks (tool limit; `o` is a concrete object here: its repr()/str() raised)
        if _tracing_now():
            with _NoTracing():
                return _orig_sf(formatter, o)
        return _orig_sf(formatter, o)
    _sf_guard.__wrapped__ = _orig_sf
    _reflect._safeFormat = _sf_guard

    # repr() of a *symbolic* str is an opaque constant text (formatting it would realise it: one
    # path per format string on every error path, whose text quotes the whole event)
    try:
        from crosshair.libimpl import builtinslib as _bl
        _bl.AnySymbolicStr.__repr__ = lambda self: "'<symbolic text>'"
        _install_builtin_checks()
    except ImportError:
        pass


def _unwrapped(f):
    return getattr(f, "__wrapped__", f)


# ---------------------------------------------------------------------------------------------
# hostile values


class Boom(Exception):
    """raised by the hostile objects; formatting the exception itself raises again"""

    def __str__(self):
        raise ZeroDivisionError("str(Boom)")

    def __repr__(self):
        raise ZeroDivisionError("repr(Boom)")


class BadStr:
    def __str__(self):
        raise Boom("BadStr.__str__")

    def __repr__(self):
        return "<BadStr>"


class BadRepr:
    def __repr__(self):
        raise Boom("BadRepr.__repr__")


class BadFormat:
    def __format__(self, spec):
        raise Boom("BadFormat.__format__")


class NonText:
    def __str__(self):
        return b"bytes from __str__"

    def __repr__(self):
        return None

    def __format__(self, spec):
        return 5


class Holder:
    """attribute / item lookups: .a is a callable returning a hostile object, .r / .s plain
    attributes, .b raises a non-AttributeError, [..] raises"""

    def __init__(self):
        self.a = lambda: BadStr()
        self.r = BadRepr()
        self.s = "txt"

    @property
    def b(self):
        raise Boom("Holder.b")

    def __getitem__(self, k):
        raise Boom("Holder[]")


def _raiser():
    raise Boom("called")


def _ret_hostile():
    return BadRepr()


def _failure(exc):
    try:
        raise exc
    except Exception:  # noqa
        return Failure()


class BadTracebackFailure(Failure):
    def getTraceback(self, *a, **k):
        raise Boom("no traceback")


class BytesTracebackFailure(Failure):
    def getTraceback(self, *a, **k):
        return b"bytes traceback"


class BadNumber:
    def __float__(self):
        raise Boom("float")

    def __index__(self):
        raise Boom("index")

    def __int__(self):
        raise Boom("int")


NVAL = 14


def _value(k):
    """menu of event values; built fresh for every call"""
    if k == 0:
        return 7
    if k == 1:
        return "x"
    if k == 2:
        return None
    if k == 3:
        return b"\xff"
    if k == 4:
        return BadStr()
    if k == 5:
        return BadRepr()
    if k == 6:
        return BadFormat()
    if k == 7:
        return NonText()
    if k == 8:
        return _raiser
    if k == 9:
        return _ret_hostile
    if k == 10:
        return {"a": BadRepr(), "b": 1, "0": "zero", 0: "int zero", "r": lambda: BadStr()}
    if k == 11:
        return [BadStr(), 2]
    if k == 12:
        return Holder()
    return _failure(Boom("in failure"))


_MISSING = object()


class _ScanDict(dict):
    """the event dict under the solver: lookup of a symbolic str key is a linear scan with `==`
    (one fork per key of the event) instead of hashing, which realises the key (one path per field
    name).  Replay uses a plain dict."""

    def __getitem__(self, key):
        if type(key) is str or not isinstance(key, str):
            return dict.__getitem__(self, key)
        for k in list(dict.keys(self)):
            if type(k) is str and len(k) == len(key) and key == k:
                return dict.__getitem__(self, k)
        raise KeyError(key)


def _event(d):
    return _ScanDict(d) if api.MODE == "sym" else d


def _set(event, key, v):
    if v is not _MISSING:
        event[key] = v


NTIME = 9


def _pick(k, items):
    # a symbolic index into a tuple would give symbolic elements: compare with each position
    for i in range(len(items)):
        if k == i:
            return items[i]
    raise IndexError(k)


def _time(k):
    return _pick(k, (_MISSING, None, 0.0, 1.5e9, "abc", 1e18, float("nan"), 2 ** 70, BadNumber()))


NSYS = 6


def _sys(k):
    """log_system / log_namespace values"""
    if k == 0:
        return _MISSING
    if k == 1:
        return None
    if k == 2:
        return "sys"
    if k == 3:
        return 5
    if k == 4:
        return b"\xff"
    return BadRepr()


class LazyLevel:
    """level-like object whose .name is a property raising something other than AttributeError"""

    @property
    def name(self):
        raise Boom("LazyLevel.name")

    def __str__(self):
        return "lazy"


class ProxyLevel:
    """every attribute lookup fails with a non-AttributeError"""

    def __getattr__(self, attr):
        raise RuntimeError("backend gone")


NLEVEL = 8


def _level(k):
    if k == 0:
        return _MISSING
    if k == 1:
        return None
    if k == 2:
        return LogLevel.info
    if k == 3:
        return "info"
    if k == 4:
        return 5
    if k == 5:
        return BadStr()
    if k == 6:
        return LazyLevel()
    return ProxyLevel()


NFAIL = 8


def _fail(k):
    if k == 0:
        return _MISSING
    if k == 1:
        return None
    if k == 2:
        return _failure(ValueError("plain"))
    if k == 3:
        return _failure(Boom("unprintable"))
    if k == 4:
        return BadTracebackFailure(ValueError("x"))
    if k == 5:
        return object()
    if k == 6:
        return Failure(ValueError(BadStr()))
    return BadStr()


def _in_alpha(s):
    """every character of s is in ALPHA: one symbolic boolean per character (no fork per value)"""
    acc = True
    for ch in s:
        o = ord(ch)
        acc = acc & ((o == 123) | (o == 125) | (o == 33) | (o == 58) | (o == 46) | (o == 91) | (o == 93)
                     | (o == 40) | (o == 41) | (o == 97) | (o == 98) | (o == 48) | (o == 114) | (o == 115))
    return True if acc else False


def _call(fn, a, kw):
    return fn(*a, **kw)


def _call_native(fn, a, kw):
    """every input is a concrete object (menu harnesses: the solver only chooses the menu entries):
    run the real code outside CrossHair's tracing, i.e. with the real C datetime / str.format /
    "%"-formatting instead of CrossHair's Python models of them"""
    if api.MODE == "sym" and _tracing_now():
        with _NoTracing():
            return fn(*a, **kw)
    return fn(*a, **kw)


def _checked(call, fn, a, kw, none_ok):
    del _cf_seen[:]
    try:
        out = call(fn, a, kw)
    except Exception:  # noqa  (hostile objects only raise Exception subclasses)
        _cf_check()
        return False
    _cf_check()
    if none_ok and out is None:
        return True
    return isinstance(out, str)


def _keep(fn, into):
    def call(*a, **kw):
        r = fn(*a, **kw)
        into.append(r)
        return r
    return call


def _text(fn, *a, **kw):
    """call a formatter: the result must be an instance of str and nothing may be raised"""
    return _checked(_call, fn, a, kw, False)


def _text_or_none(fn, *a, **kw):
    return _checked(_call, fn, a, kw, True)


def _ntext(fn, *a, **kw):
    return _checked(_call_native, fn, a, kw, False)


def _ntext_or_none(fn, *a, **kw):
    return _checked(_call_native, fn, a, kw, True)


def _fmt_checks(event):
    # formatEventAsClassicLogText = eventAsText with every part switched on = _formatEvent (all that
    # formatEvent runs) + time stamp + system + line folding; formatEvent itself and the other flag
    # combinations are called in `as_text`
    return _text_or_none(F.formatEvent if os.environ.get('A19_FE') else F.formatEventAsClassicLogText, event)


def fmt_event(fmt: str, va: int, vb: int) -> bool:
    """
    pre: 0 <= va < NVAL and 0 <= vb < NVAL
    pre: len(fmt) <= B['n']
    pre: _in_alpha(fmt)
    post: _
    """
    # the whole format string is symbolic
    event = _event({"log_format": fmt, "a": _value(va), "b": _value(vb)})
    cover()
    return _fmt_checks(event)


def field_event(body: str, va: int, vb: int) -> bool:
    """
    pre: 0 <= va < NVAL and 0 <= vb < NVAL
    pre: len(body) <= B['m']
    pre: _in_alpha(body)
    post: _
    """
    # one replacement field with symbolic content (field name with lookups / call syntax,
    # conversion, format spec - or anything else, braces included) between literal text
    event = _event({"log_format": "<{" + body + "}>", "a": _value(va), "b": _value(vb)})
    cover()
    return _fmt_checks(event)


def flat_event(body: str, va: int, how: int) -> bool:
    """
    pre: 0 <= va < NVAL and 0 <= how <= 5
    pre: len(body) <= B['f'] and (how == 0 or len(body) <= 1)
    pre: _in_alpha(body)
    post: _
    """
    # events carrying "log_flattened": as produced by the real flattenEvent (how == 0), or odd
    event = _event({"log_format": "{" + body + "}.", "a": _value(va), "b": 1})
    if how == 0:
        try:
            _FL.flattenEvent(event)
        except Exception:  # noqa  flattening hostile events may raise; not part of this property
            pass
        cover("flattened")
    elif how == 1:
        event["log_flattened"] = {}
    elif how == 2:
        event["log_flattened"] = None
    elif how == 3:
        event["log_flattened"] = {"a!s:": BadStr(), "a!r:": NonText(), "a!:": 1}
    elif how == 4:
        event["log_flattened"] = {"a!s:": "ok", "a!r:": "ok"}
        event["log_format"] = None if len(body) == 0 else 5
    else:
        event["log_flattened"] = Holder()
    cover()
    return _fmt_checks(event)


NERR = 6


def unformattable(fmt: str, va: int, err: int) -> bool:
    """
    pre: 0 <= va < NVAL and 0 <= err < NERR
    pre: len(fmt) <= 2
    post: _
    """
    event = {"log_format": fmt, "a": _value(va)}
    if err == 0:
        error = ValueError("plain")
    elif err == 1:
        error = Boom("x")
    elif err == 2:
        error = BadRepr()
    elif err == 3:
        error = NonText()
    elif err == 4:
        error = KeyError(fmt)
    else:
        error = None
    if err == 5:
        event[BadRepr()] = "unformattable key"
    cover()
    return _text(F.formatUnformattableEvent, event, error)


NFMT = 9


def _format_menu(k):
    if k == 0:
        return _MISSING
    if k == 1:
        return None
    if k == 2:
        return ""
    if k == 3:
        return "plain\ntext {a}"
    if k == 4:
        return b"bytes {a}"
    if k == 5:
        return b"\xff\xfe {a}"
    if k == 6:
        return 5
    if k == 7:
        return BadRepr()
    return "{a!r:>{b}} {b()}"


def as_text(fsel: int, va: int, tb: bool, fail: int) -> bool:
    """
    pre: 0 <= fsel < NFMT and 0 <= va < NVAL and 0 <= fail < NFAIL
    post: _
    """
    # formatEvent / eventAsText: odd log_format values (missing, None, empty, bytes valid / invalid
    # utf-8, non-strings) x hostile value x traceback requested or not x odd log_failure values
    # (menus; the solver drives the case split)
    event = {"a": _value(va), "b": 3}
    _set(event, "log_format", _format_menu(fsel))
    _set(event, "log_failure", _fail(fail))
    tb = True if tb else False
    cover()
    if not _ntext(F.formatEvent, event):
        return False
    got = []
    if not _ntext(_keep(F.eventAsText, got), event, includeTraceback=tb, includeTimestamp=True, includeSystem=True):
        return False
    if not _ntext_or_none(_keep(F.formatEventAsClassicLogText, got), event):
        return False
    if fsel <= 2:
        # documented: nothing to format and no traceback -> "" / None, whatever the other flags say
        if not (tb and "log_failure" in event) and got[0] != "":
            return False
        if "log_failure" not in event and got[1] is not None:
            return False
    elif got[0] == "" or got[1] is None:
        return False
    if "log_failure" in event and not _ntext(F._formatTraceback, event["log_failure"]):
        return False
    return True


def sys_fields(empty: bool, ts: bool, sy: bool, tsel: int, ssel: int, nsel: int, lsel: int) -> bool:
    """
    pre: 0 <= tsel < NTIME and 0 <= ssel < NSYS and 0 <= nsel < NSYS and 0 <= lsel < NLEVEL
    post: _
    """
    # time stamp and system parts of eventAsText / formatEventAsClassicLogText with odd log_time /
    # log_system / log_namespace / log_level values, and formatTime / _formatSystem directly
    event = {"log_format": "" if empty else "text"}
    _set(event, "log_time", _time(tsel))
    _set(event, "log_system", _sys(ssel))
    _set(event, "log_namespace", _sys(nsel))
    _set(event, "log_level", _level(lsel))
    ts = True if ts else False
    sy = True if sy else False
    cover()
    if not _ntext(F.eventAsText, event, includeTraceback=True, includeTimestamp=ts, includeSystem=sy):
        return False
    if not _ntext_or_none(F.formatEventAsClassicLogText, event):
        return False
    if not _ntext(F.formatTime, event.get("log_time")):
        return False
    if not _ntext(F._formatSystem, event):
        return False
    return True


NLEG = 11


def _legacy_format(k):
    return _pick(k, ("%(a)s", "%(a)r and %(b)d", "%(zz)s", "%", "%(a", b"%(a)s", 5, None, "plain", "%(a)d",
                     BadRepr()))


def _legacy_message(ed, msel, va):
    if msel == 0:
        ed["message"] = ()
    elif msel == 1:
        ed["message"] = ("text", _value(va))
    elif msel == 2:
        ed["message"] = (BadStr(), b"\xff", NonText())
    else:
        ed["message"] = ""


def legacy_format(msel: int, va: int, fsel: int) -> bool:
    """
    pre: 0 <= msel <= 3 and 0 <= va < NVAL and 0 <= fsel <= NLEG
    post: _
    """
    # twisted.python.log.textFromEventDict / _safeFormat (legacy observers): "%"-formats (concrete
    # menu: the printf-style formatter is C code) with hostile values and message tuples
    ed = {"isError": 0, "a": _value(va), "b": 3}
    _legacy_message(ed, msel, va)
    if fsel < NLEG:
        ed["format"] = _legacy_format(fsel)
    cover()
    if not _ntext_or_none(_tlog.textFromEventDict, ed):
        return False
    if "format" in ed and not _ntext(_tlog._safeFormat, ed["format"], ed):
        return False
    return True


def legacy_error(msel: int, fail: int, wsel: int, iserr: bool) -> bool:
    """
    pre: 0 <= msel <= 3 and 0 <= fail < NFAIL and 0 <= wsel <= 3
    post: _
    """
    # textFromEventDict for error events: odd failures and "why" values
    ed = {"isError": 1 if iserr else 0, "format": "%(isError)s"}
    _legacy_message(ed, msel, 4)
    _set(ed, "failure", _fail(fail))
    if wsel == 1:
        ed["why"] = "reason"
    elif wsel == 2:
        ed["why"] = BadStr()
    elif wsel == 3:
        ed["why"] = b"\xff"
    cover()
    return _ntext_or_none(_tlog.textFromEventDict, ed)


def _prod(*dims):
    out = [()]
    for name, n in dims:
        out = [o + ("%s == %d" % (name, i),) for o in out for i in range(n)]
    return out


QVALS_QUICK = (0, 5, 8, 12)
QVALS = (0, 4, 5, 8, 9, 12)     # quick tier, longest field bodies: int, raising __str__, raising __repr__,
#                                  raising callable, callable returning a hostile object, attribute holder


def _fmt_shards(tier):
    n = BOUNDS[tier]["n"]
    out = [("len(fmt) <= %d" % (n - 2),)]
    out += [("len(fmt) == %d" % (n - 1), "%d <= va <= %d" % (a, a + 6)) for a in (0, 7)]
    out += [("len(fmt) == %d" % n, "va == %d" % a) for a in range(NVAL)]
    return [o + ("vb == 12",) for o in out]


_THIRDS = ("ord(body[0]) < 58", "58 <= ord(body[0]) <= 97", "ord(body[0]) > 97")   # !().0 / :[]a / brs{}


def _field_shards(tier):
    m = BOUNDS[tier]["m"]
    out = [("len(body) <= %d" % (m - 2), "%d <= va <= %d" % (a, a + 6)) for a in (0, 7)]
    out += [("len(body) == %d" % (m - 1), "va == %d" % a) for a in range(NVAL)]
    # the longest bodies with 6 of the 14 values (both tiers; the thorough tier is one character longer)
    out += [("len(body) == %d" % m, "va == %d" % a, third)
            for a in (QVALS_QUICK if tier == "quick" else QVALS) for third in _THIRDS]
    return [o + ("vb == 12",) for o in out]


def _sys_shards(tier):
    if tier == "quick":
        # odd time values with default system fields, odd system fields with a missing / None time
        return [("tsel <= 1", "lsel == %d" % i) for i in range(NLEVEL)] + [
            ("tsel >= 2", "ssel == 0", "nsel == 0", "lsel == 0")]
    return [("lsel == %d" % i, "nsel == %d" % j) for i in range(NLEVEL) for j in range(NSYS)]


def _flat_shards(tier):
    m = BOUNDS[tier]["f"]
    out = [("len(body) <= %d" % (m - 1), "how == 0"), ("how >= 1", "va <= 6"), ("how >= 1", "va >= 7")]
    out += [("len(body) == %d" % m, "how == 0", "va == %d" % a) for a in (QVALS_QUICK if tier == "quick" else QVALS)]
    return out


HARNESSES = [
    H(fmt_event, shards=_fmt_shards, timeout={"quick": 120, "thorough": 1200}),
    H(field_event, shards=_field_shards, timeout={"quick": 150, "thorough": 1500}),
    H(flat_event, shards=_flat_shards, timeout={"quick": 150, "thorough": 1200}, labels=("end", "flattened")),
    H(unformattable, timeout={"quick": 60, "thorough": 300}),
    H(as_text, shards=lambda tier: _prod(("fsel", NFMT)), timeout={"quick": 60, "thorough": 600}),
    H(sys_fields, shards=_sys_shards, timeout={"quick": 60, "thorough": 600}),
    H(legacy_format, shards=lambda tier: _prod(("msel", 4)), timeout={"quick": 60, "thorough": 600}),
    H(legacy_error, timeout={"quick": 60, "thorough": 600}),
]

VECTORS = {
    # from twisted.logger.test.test_format (formatEvent, method call, attribute subscript, evil(), Unformattable
    # key / value / error, weird and bytes formats, unformattable system, non-Failure log_failure) and
    # twisted.test.test_log (textFromEventDict) - mapped onto the menus
    "fmt_event": [("{a}", 0, 0), ("hello {a!r}", 1, 0), ("{a()}", 8, 0), ("hello {b.a()}", 0, 12),
                  ("{a[a]} {a[b]}", 10, 0), ("}", 0, 0), ("{a[0]}", 11, 1), ("{a!x}", 0, 0), ("{", 5, 5),
                  ("{a:>{b}}", 1, 0), ("{a:{b:{a}}}", 1, 0), ("{0}{}", 0, 0)],
    "field_event": [("a()", 9, 0), ("a!r:>{b}", 1, 0), ("a.r", 12, 0), ("a[r]()", 10, 0), ("a.b", 12, 0)],
    "flat_event": [("a!r", 1, 0), ("a", 4, 3), ("", 0, 4), ("a()", 9, 0), ("a", 0, 2), ("a", 0, 5)],
    "unformattable": [("{a()}", 8, 2), ("x", 5, 0), ("", 0, 5), ("zz", 7, 3), ("k", 1, 4)],
    "as_text": [(3, 0, True, 2), (5, 4, False, 0), (0, 0, True, 5), (6, 5, True, 4), (8, 9, False, 7), (2, 0, True, 0)],
    "sys_fields": [(False, True, True, 3, 2, 0, 0), (False, True, True, 1, 5, 0, 0), (False, True, True, 4, 0, 5, 3),
                   (True, True, True, 8, 0, 0, 5), (False, True, False, 6, 0, 0, 0), (False, False, True, 0, 3, 4, 4),
                   (False, True, True, 1, 0, 2, 6), (False, True, True, 1, 0, 0, 7), (False, False, True, 0, 2, 0, 6)],
    "legacy_format": [(0, 4, 0), (1, 5, 11), (0, 0, 10), (2, 0, 3), (3, 7, 5)],
    "legacy_error": [(0, 4, 2, True), (0, 2, 0, True), (0, 3, 3, True), (0, 0, 0, True), (1, 7, 1, False)],
}

BOUNDS_TEXT = ("format strings over the 14 characters { } ! : . [ ] ( ) a b 0 r s: every whole format string of length "
               "<= n (fmt_event), every single replacement field '<{' + body + '}>' with len(body) <= m "
               "(field_event; the longest bodies with 4 (quick) / 6 (thorough) of the 14 values) and '{' + body + '}.' "
               "with len(body) <= f after the real flattenEvent (flat_event); event keys a and b take any of 14 "
               "menu values (int, str, None, bytes, objects whose __str__ / __repr__ / __format__ raise or return "
               "non-text, raising and hostile-returning callables, dict, list, attribute holder with a raising "
               "property and raising __getitem__, Failure of an exception whose own str/repr raise); b is the "
               "attribute holder in the sharded runs.  Menu harnesses (the solver only drives the case split, the "
               "real code then runs natively): 9 log_format kinds (missing, None, '', text, utf-8 bytes, invalid "
               "bytes, int, object with raising repr, nested-spec + call format) x 14 values x 8 log_failure kinds "
               "x traceback flag; 9 log_time x 6 log_system x 6 log_namespace x 8 log_level kinds (incl. levels whose .name property / __getattr__ raise) x both flags "
               "(quick: odd times with default system fields and odd system fields with missing/None time; "
               "thorough: full product); formatUnformattableEvent with 6 error kinds x 14 values x symbolic "
               "format of <= 2 characters; twisted.python.log.textFromEventDict/_safeFormat with 11 '%' formats x "
               "14 values x 4 message kinds and 8 failure x 4 why x 4 message kinds")
OUTSIDE = ["format strings with characters outside the 14-character alphabet or longer than the bounds (letters other "
           "than a b r s and digits other than 0 behave like those; width/precision/type characters of format specs "
           "for str and int values are reached only as far as they are spelled with the alphabet)",
           "exceptions raised by hostile objects that are not Exception subclasses (KeyboardInterrupt, SystemExit, "
           "GeneratorExit ...): the menu raises Exception subclasses only",
           "a user-supplied formatTime callable that raises (eventAsText(formatTime=...)); only the default "
           "formatTime is used",
           "objects that misbehave in ways other than raising / returning non-text from __str__, __repr__, __format__, "
           "__call__, __getattr__ (property), __getitem__, __index__/__float__: e.g. infinite recursion, "
           "unbounded output, side effects on the event",
           "the '%'-style formatter of the legacy twisted.python.log path is C code: its format strings are a "
           "concrete menu of 11, not symbolic",
           "the text CONTENT of the results (only: is an instance of str / None where documented, nothing raised; "
           "plus '' / None for an event with nothing to format and no traceback)",
           "observers, file output, encoding of the text (FileLogObserver, textFileLogObserver)"]
ASSUMPTIONS = ["_string.formatter_parser and _string.formatter_field_name_split (C) are replaced under the solver by "
               "the pure-Python ports in this file; selftest() compares them with the C functions on every string "
               "of length <= 4 over the alphabet, all strings of length 5-6 over { } ! : [ a, and extra vectors "
               "(nested specs, unicode digits, overflowing indices, non-str arguments): same tuples or same "
               "exception type and message.  Replay uses the C functions",
               "repr() of a symbolic str is a constant text under the solver (CPython's repr of a str always "
               "returns a str and cannot raise); consequently the content of error texts is not inspected",
               "CrossHair's replacements of the builtins repr/str/format/getattr are extended here: the CPython "
               "checks '__repr__/__str__ returned non-string' and '__format__ must return a str' are restored; "
               "format() of an object whose __format__ is object.__format__ is str(obj) for an empty spec and "
               "TypeError otherwise; getattr() with a symbolic name compares the name with dir(obj) and then calls "
               "the class's __getattr__ hook; format specs reaching int/str values are realised (one path per spec)",
               "under the solver the event is a dict subclass whose lookup of a symbolic key scans the keys with == "
               "instead of hashing; replay and the menu harnesses use plain dicts",
               "twisted's `except BaseException` clauses must not swallow CrossHair's path-control exceptions: "
               "formatUnformattableEvent and reflect._safeFormat are wrapped to re-raise them (the real functions "
               "run for everything else; _safeFormat runs untraced because traceback.print_exc overflows the "
               "tracer's symbolic set), and any such exception created during a call is re-raised by the harness",
               "menu harnesses (as_text, sys_fields, legacy_*) run the real code on concrete objects outside "
               "CrossHair's tracing, i.e. with the real C datetime / str.format / '%' implementations"]
EXPLANATION = ("real formatEvent / eventAsText / formatEventAsClassicLogText / formatUnformattableEvent / flatFormat "
               "(+ legacy textFromEventDict) on a symbolic format string parsed by validated pure-Python ports of "
               "CPython's format-string parsers, with solver-chosen hostile event values; result must be str, "
               "nothing raised")
