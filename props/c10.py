"""C10 LoopingCall on a real task.Clock: cadence on boundaries, no overlap, skip counts, start() Deferred."""
import math
import os
import sys
import time as _time
import warnings

from twisted.internet import task as _task
from twisted.internet.defer import Deferred
from twisted.internet.task import Clock, LoopingCall

from vlib.api import H, cover

# CrossHair forks every float argument into finite / nan / +inf / -inf; timer arguments are finite by contract,
# so only the finite (real-valued) class is explored (stated in OUTSIDE).  RealBasedSymbolicFloat.__init__ caps
# every path's verdict at UNKNOWN ("reals are not floats"); that caveat is the one stated in OUTSIDE (exact real
# arithmetic), so the cap is lifted: "confirmed" = confirmed over all paths for real-valued times.
if os.environ.get("VERIF_MODE") == "sym":
    os.environ["CROSSHAIR_ONLY_FINITE_FLOATS"] = "1"
    warnings.filterwarnings("ignore", message=".*CROSSHAIR_ONLY_FINITE_FLOATS.*")
    if "crosshair" in sys.modules:
        from crosshair.statespace import StateSpace as _SS
        _SS.cap_result_at_unknown = lambda self: None



def _trunc_int(x=0, *a):
    # int(x) for numbers == x.__trunc__(); CrossHair's patched int() *realises* a symbolic float (one path per
    # value) while RealBasedSymbolicFloat.__trunc__ stays symbolic (z3 ToInt).  Validated in selftest().
    if not a and not isinstance(x, (str, bytes, bytearray)) and hasattr(x, "__trunc__"):
        return x.__trunc__()
    return int(x, *a)


def _via_dunder(name, orig):
    def shim(x, *a):
        if not isinstance(x, (str, bytes, bytearray)) and hasattr(x, name):
            return getattr(x, name)(*a)
        return orig(x, *a)
    return shim


def _divmod_shim(a, b):
    return (a // b, a % b)


# rounding helpers a timer module may call: CrossHair registers math.floor/ceil/trunc as "realise the arguments"
# (one path per value) and leaves round/divmod to the C implementation; RealBasedSymbolicFloat's own
# __floor__/__ceil__/__trunc__/__round__/__floordiv__/__mod__ are symbolic (z3 ToInt / integer quotient), so the
# helpers are routed there.  `//` and `%` need nothing (operators already dispatch to the symbolic methods).
_ROUNDING_SHIMS = [(math.floor, _via_dunder("__floor__", math.floor)), (math.ceil, _via_dunder("__ceil__", math.ceil)),
                   (math.trunc, _via_dunder("__trunc__", math.trunc)), (round, _via_dunder("__round__", round)),
                   (divmod, _divmod_shim)]

if os.environ.get("VERIF_MODE") == "sym":
    # int(): LoopingCall._intervalOf is the only user in twisted.internet.task; rebound in the module namespace
    _task.int = _trunc_int
    if "crosshair" in sys.modules:
        # the others are intercepted by CrossHair's call patching whatever name/import the module uses
        # (`import math`, `from math import floor`, a function-local import, the builtins round/divmod)
        from crosshair import core as _chcore
        for _ent, _rep in _ROUNDING_SHIMS:
            _chcore._PATCH_REGISTRATIONS[_ent] = _rep


def selftest():
    from fractions import Fraction
    n = 0
    corpus = (0.0, -0.0, 0.25, -0.25, 0.999, 1.0, 1.5, -1.5, 2.0, -2.0, 2.5, -2.5, 7.75, -7.75, 1e9 + 0.5, 3, -3, True,
              0.1 + 0.2, 2.5 / 0.25, (1.75 - 0.5) / 0.25, -0.5 / 0.25, Fraction(-7, 2))
    for v in corpus + ("12", " 7 "):
        assert _trunc_int(v) == int(v) and type(_trunc_int(v)) is int, v
        n += 1
    assert _trunc_int("ff", 16) == 255 and _trunc_int() == 0
    for orig, shim in _ROUNDING_SHIMS:
        for v in corpus:
            if orig is divmod:
                for d in (1.0, 0.5, 0.25, 3, -2.0):
                    assert shim(v, d) == orig(v, d), (v, d)
                    n += 1
            else:
                assert shim(v) == orig(v) and type(shim(v)) is type(orig(v)), (orig, v)
                n += 1
        if orig is round:
            assert shim(2.675, 2) == round(2.675, 2) and shim(1234.5, -2) == round(1234.5, -2)
    return n + 4


PROPERTY = "C10"
LEVEL = "model_checking"
ENCODED = ["twisted.internet.task:LoopingCall.start", "twisted.internet.task:LoopingCall.__call__",
           "twisted.internet.task:LoopingCall._scheduleFrom", "twisted.internet.task:LoopingCall.stop",
           "twisted.internet.task:LoopingCall.reset", "twisted.internet.task:LoopingCall.withCount",
           "twisted.internet.task:LoopingCall._intervalOf", "twisted.internet.task:Clock.advance",
           "twisted.internet.task:Clock.callLater", "twisted.internet.base:DelayedCall.cancel",
           "twisted.internet.defer:maybeDeferred"]
BOUNDS = {"quick": {"adv": 3}, "thorough": {"adv": 5}}
B = {}
IVS = [1.0, 2.0, 3.0, 0.5, 0.25]
BOUNDS_TEXT = ("interval case-split over {1, 2, 3, 0.5, 0.25}; start time = any real in [0, 4 intervals]; `now` flag "
               "symbolic; plain and withCount loops; 3 (quick) / 5 (thorough) advances, each any real amount in "
               "[0, 5 intervals] (so <= 4 / 6 iterations, jumps over several boundaries, sub-interval steps); the "
               "function's behaviour in each of its first 3 calls is symbolic: return / raise / return a Deferred that "
               "the harness fires or errbacks after a symbolically chosen later advance (or never); one stop() or "
               "reset() at a symbolic point: inside call k, right after start(), or after advance j.  Quick slices: "
               "(A) every interval x all behaviours, no stop/reset; (B) every interval x top-level reset(), function "
               "always returns; (C) stop() at every place x all behaviours for intervals 1 and 0.5; (D) reset() at "
               "every place x all behaviours for interval 1 (withCount) and 0.25 (plain).  Thorough: full product.  "
               "E6 lemma: howLong() for ALL real interval > 0, when >= starttime (unbounded)")
OUTSIDE = ["Float64 rounding: E1 and the E6 lemma are over exact reals/rationals; the 'effectively zero' guard "
           "`when == when + untilNextInterval` of _scheduleFrom is only needed for floating point and is "
           "unreachable over reals (the lemma proves that); its floating-point correctness is NOT claimed",
           "interval 0 (a task.Clock advance never terminates: the call reschedules itself for 'now'); intervals "
           "other than the five case-split values in the E1 part (the E6 lemma covers every interval > 0 for howLong)",
           "second start() after the loop ended; stop()/reset() on a loop that is not running (API precondition)",
           "more than one stop()/reset() per history; non-finite times"]
ASSUMPTIONS = ["withCount after reset() at S' (rule read off _intervalOf/counter/reset and checked here): the counts passed "
               "since the reset sum to (boundaries of the new grid S' + k*I in (S', T]) + floor((S' - L)/I), L = time of "
               "the last invocation before the reset; the second term is 0 unless a pending Deferred kept the loop "
               "waiting for a whole interval or more before the reset",
               "rounding helpers (int, math.floor/ceil/trunc, round, divmod) called with symbolic reals are routed to "
               "the symbolic __trunc__/__floor__/__ceil__/__round__/__floordiv__/__mod__ (validated against the "
               "originals in selftest())",
               "at most one invocation per Clock.advance is possible (the next call is always scheduled strictly "
               "after 'now'); the oracle checks that too",
               "the trace oracle keeps its own clock, start time, completion time and running/waiting state; the "
               "scheduled time is read from LoopingCall.call.getTime() only to be validated"]
EXPLANATION = ("symbolic histories of a real LoopingCall on a real task.Clock validated by a trace oracle after every "
               "step (scheduled time == first boundary strictly after the previous completion, on the start + k*I "
               "grid; invoked exactly in the advance that reaches it; never while a Deferred is pending or after "
               "stop/failure; withCount sums; start() Deferred fired exactly once with the right result), plus an "
               "SMT lemma for howLong() over all real intervals")


class _Boom(Exception):
    pass


class _Trace:
    def __init__(self):
        self.ok = True

    def fail(self):
        self.ok = False


def _on_grid(E, S, I):
    q = (E - S) / I
    return q == _trunc_int(q)


def _loop(iv, t0, now, wc, behs, advs, fires, sop, splace):
    I = None
    for k in range(len(IVS)):
        if iv == k:
            I = IVS[k]
    clock = Clock()
    clock.advance(t0)
    tr = _Trace()
    m = {"tnow": 0.0 + t0, "S": 0.0 + t0, "C": 0.0 + t0, "alive": False, "waiting": False, "pend": None, "pendb": 0,
         "E": None, "ncalls": 0, "in_start": False, "in_adv": False, "inv_this": 0, "sum": 0, "nf": 0,
         "Tprev": None, "exp": None, "sopdone": False, "stopped_in_call": False}
    fired = []
    boom = _Boom()

    def do_sop(inside):
        # the one stop()/reset(); skipped when the loop is not running (API precondition)
        if m["sopdone"] or sop == 0:
            return
        m["sopdone"] = True
        if not m["alive"]:
            return
        if sop == 1:
            lc.stop()
            m["alive"] = False
            if not inside and not m["waiting"]:
                m["exp"] = "stopped"
                m["E"] = None
        else:
            lc.reset()
            if not inside and not m["waiting"]:
                m["S"] = m["tnow"]
                m["C"] = m["tnow"]
                # withCount after reset(): counts restart on the NEW grid S' + k*I.  Exact rule of the code
                # (_intervalOf truncates, the last invocation L lies at or before S'):
                #   count(T) = floor((T - S')/I) - trunc((L - S')/I) = floor((T - S')/I) + floor((S' - L)/I)
                # i.e. boundaries of the new grid in (S', T] plus the WHOLE intervals that had already elapsed
                # between the last invocation and the reset (0 unless a Deferred kept the loop waiting > I)
                m["sum"] = 0
                if m["Tprev"] is None:
                    m["nf"] = 0
                else:
                    m["nf"] = _trunc_int((m["tnow"] - m["Tprev"]) / I)

    def f(*args):
        k = m["ncalls"]
        T = clock.seconds()
        if m["waiting"] or not m["alive"]:
            tr.fail()                       # re-entered while a Deferred is pending / called after the end
        if T != m["tnow"]:
            tr.fail()
        if m["in_start"]:
            if not (now and k == 0):
                tr.fail()
        else:
            if not m["in_adv"] or m["E"] is None or not (m["E"] <= T):
                tr.fail()                   # invoked without a reached scheduled time
        m["inv_this"] += 1
        if wc:
            if len(args) != 1:
                tr.fail()
            else:
                c = args[0]
                if not (c >= 1):
                    tr.fail()
                m["sum"] = m["sum"] + c
                # counts since start()/reset() == boundaries of the current grid elapsed so far (the one at
                # start counts iff now=True; after reset() see do_sop)
                el = m["sum"] - m["nf"]
                if not (el * I <= T - m["S"] and T - m["S"] < (el + 1) * I):
                    tr.fail()
                m["Tprev"] = T
        elif len(args) != 0:
            tr.fail()
        m["ncalls"] = k + 1
        m["E"] = None
        b = behs[k] if k < len(behs) else 0
        if splace == k:
            do_sop(True)
        if b == 1:
            m["alive"] = False
            m["exp"] = "failed"
            raise boom
        if b >= 2:
            m["waiting"] = True
            m["pend"] = Deferred()
            m["pendb"] = b
            return m["pend"]
        m["C"] = T
        if not m["alive"]:
            m["exp"] = "stopped"            # stop() from inside a call that then returns
        return None

    def fire_pending():
        d = m["pend"]
        if d is None:
            return
        m["pend"] = None
        m["waiting"] = False
        if m["pendb"] == 2:
            m["C"] = m["tnow"]
            if not m["alive"]:
                m["exp"] = "stopped"        # stop() while waiting: start()'s Deferred fires only now
            d.callback(None)
        else:
            m["alive"] = False
            m["exp"] = "failed"
            d.errback(boom)

    def check():
        if bool(lc.running) != m["alive"]:
            tr.fail()
        if m["alive"] and not m["waiting"]:
            call = lc.call
            if call is None or not call.active():
                tr.fail()
                return
            E = call.getTime()
            C = m["C"]
            # first boundary strictly after the previous completion, exactly on the start + k*I grid
            if not (E > C and E - I <= C and _on_grid(E, m["S"], I)):
                tr.fail()
            if not (E > m["tnow"]):
                tr.fail()
            m["E"] = E
            if len(clock.getDelayedCalls()) != 1:
                tr.fail()
        else:
            if lc.call is not None:
                tr.fail()
            if len(clock.getDelayedCalls()) != 0:
                tr.fail()
            m["E"] = None
        # start()'s Deferred
        if m["exp"] is None:
            if fired:
                tr.fail()
        elif m["exp"] == "stopped":
            if not (len(fired) == 1 and fired[0][0] == "ok" and fired[0][1] is lc):
                tr.fail()
        else:
            if not (len(fired) == 1 and fired[0][0] == "err" and fired[0][1].value is boom):
                tr.fail()

    lc = LoopingCall.withCount(f) if wc else LoopingCall(f)
    lc.clock = clock
    m["alive"] = True
    m["in_start"] = True
    m["nf"] = 1 if now else 0
    sd = lc.start(I, now)
    m["in_start"] = False
    sd.addCallbacks(lambda r: fired.append(("ok", r)) and None, lambda fl: fired.append(("err", fl)) and None)
    if m["ncalls"] != (1 if now else 0):
        tr.fail()
    check()
    if splace == 3:
        do_sop(False)
        check()
    for j in range(len(advs)):
        Eb = m["E"]
        m["tnow"] = m["tnow"] + advs[j]
        m["in_adv"] = True
        m["inv_this"] = 0
        clock.advance(advs[j])
        m["in_adv"] = False
        if clock.seconds() != m["tnow"]:
            tr.fail()
        want = 1 if (Eb is not None and Eb <= m["tnow"]) else 0
        if m["inv_this"] != want:
            tr.fail()                       # not invoked in the advance that reaches the boundary / invoked twice
        check()
        if splace == 4 + j:
            do_sop(False)
            check()
        if m["pend"] is not None and fires[j]:
            fire_pending()
            check()
    cover()
    if m["pend"] is not None:
        # consume: nothing may be left unhandled at GC time
        m["pend"].addErrback(lambda fl: None)
    return tr.ok


def loop3(iv: int, t0: float, now: bool, wc: bool, b0: int, b1: int, b2: int,
          a1: float, a2: float, a3: float, f1: bool, f2: bool, f3: bool, sop: int, splace: int) -> bool:
    """
    pre: 0 <= iv < 5 and t0 >= 0 and a1 >= 0 and a2 >= 0 and a3 >= 0
    pre: 0 <= b0 <= 3 and 0 <= b1 <= 3 and 0 <= b2 <= 3
    pre: 0 <= sop <= 2 and 0 <= splace <= 6 and (sop != 0 or splace == 0)
    post: _
    """
    return _loop(iv, t0, now, wc, [b0, b1, b2], [a1, a2, a3], [f1, f2, f3], sop, splace)


def loop5(iv: int, t0: float, now: bool, wc: bool, b0: int, b1: int, b2: int,
          a1: float, a2: float, a3: float, a4: float, a5: float,
          f1: bool, f2: bool, f3: bool, f4: bool, f5: bool, sop: int, splace: int) -> bool:
    """
    pre: 0 <= iv < 5 and t0 >= 0 and a1 >= 0 and a2 >= 0 and a3 >= 0 and a4 >= 0 and a5 >= 0
    pre: 0 <= b0 <= 3 and 0 <= b1 <= 3 and 0 <= b2 <= 3
    pre: 0 <= sop <= 2 and 0 <= splace <= 8 and (sop != 0 or splace == 0)
    post: _
    """
    return _loop(iv, t0, now, wc, [b0, b1, b2], [a1, a2, a3, a4, a5], [f1, f2, f3, f4, f5], sop, splace)


def _shards(nadv):
    def mk(tier):
        def sh(iv, *conds):
            I = IVS[iv]
            # times bounded in units of the interval (keeps z3's integer reasoning about `%`/int() finite):
            # start time <= 4 intervals, every advance <= 5 intervals
            bnd = ["t0 <= %r" % (4 * I,)] + ["a%d <= %r" % (j + 1, 5 * I) for j in range(nadv)]
            return tuple(["iv == %d" % iv] + list(conds) + bnd)
        ret0 = "b0 == 0 and b1 == 0 and b2 == 0"
        top = nadv + 3          # splace: 0..2 inside call k, 3 after start(), 4.. after advance j
        groups = ["splace <= 2", "3 <= splace <= 4", "splace >= 5"]
        out = []
        for iv in range(5):
            for wc in ("wc", "not wc"):
                # A: every interval, all function behaviours, no stop/reset
                out.append(sh(iv, wc, "sop == 0"))
                if tier == "quick":
                    # B: every interval, top-level reset() (moves the grid), function always returns
                    out.append(sh(iv, wc, "sop == 2", "splace >= 3", ret0))
                else:
                    for g in groups:
                        out.append(sh(iv, wc, "sop == 1", g))
                        out.append(sh(iv, wc, "sop == 2", g))
        if tier == "quick":
            # C/D: stop() and reset() at every place x all function behaviours: interval-independent logic,
            # run for two of the intervals
            for iv, wc in ((0, "wc"), (3, "not wc"), (3, "wc"), (0, "not wc")):
                out.append(sh(iv, wc, "sop == 1", "splace <= 3"))
                out.append(sh(iv, wc, "sop == 1", "splace >= 4"))
            for iv, wc in ((0, "wc"), (4, "not wc")):
                for pl in range(top + 1):
                    out.append(sh(iv, wc, "sop == 2", "splace == %d" % pl))
        return out
    return mk


HARNESSES = [
    H(loop3, shards=_shards(3), timeout={"quick": 100, "thorough": 600}, tiers=("quick",),
      note="subsumed by loop5 in the thorough tier (an advance of 0 is a no-op)"),
    H(loop5, shards=_shards(5), timeout={"quick": 60, "thorough": 1500}, tiers=("thorough",)),
]

VECTORS = {
    "loop3": [
        (0, 0.0, True, False, 0, 0, 0, 1.0, 1.0, 1.0, False, False, False, 0, 0),
        (3, 1.5, False, True, 0, 0, 0, 0.25, 1.75, 0.5, False, False, False, 0, 0),
        (1, 0.5, True, True, 2, 0, 0, 5.0, 0.5, 2.0, True, False, False, 0, 0),     # Deferred fired 2.5 intervals late
        (0, 0.0, True, False, 0, 1, 0, 1.0, 1.0, 1.0, False, False, False, 0, 0),   # second call raises
        (0, 0.0, True, False, 2, 0, 0, 1.0, 1.0, 1.0, False, True, False, 1, 4),    # stop while waiting, fired later
        (2, 0.25, False, False, 0, 0, 0, 3.0, 1.0, 3.0, False, False, False, 2, 5),  # reset between boundaries
        (4, 0.0, True, True, 3, 0, 0, 0.125, 0.125, 1.0, False, True, False, 0, 0),  # Deferred errbacks
        (0, 0.0, True, False, 0, 0, 0, 1.0, 1.0, 1.0, False, False, False, 1, 1),   # stop() from inside call 1
    ],
}


# ---- E6: SMT lemma for the nested howLong() of LoopingCall._scheduleFrom -------------------------------------
# The z3 term is regenerated from the source of the real function on every run (mini AST -> z3 translator for
# the statement forms that occur in howLong), validated against the real function on a grid of dyadic points,
# and then the negated claims are handed to z3 (expect unsat).

class _CapClock:
    def __init__(self):
        self.delays = []

    def seconds(self):
        return 0.0

    def callLater(self, delay, f, *a, **kw):
        self.delays.append(delay)
        return None


def _real_howlong(interval, start, when):
    lc = LoopingCall(lambda: None)
    lc.clock = _CapClock()
    lc.interval = interval
    lc.starttime = start
    lc.running = True
    lc._scheduleFrom(when)
    return lc.clock.delays[-1]


def howlong_point(interval: float, start: float, when: float) -> bool:
    # replay target for the lemma's counterexamples: the REAL _scheduleFrom at one concrete point
    # (requires interval > 0 and when >= start)
    hl = _real_howlong(interval, start, when)
    if not (0 < hl <= interval):
        return False
    q = (when + hl - start) / interval
    if q != int(q):
        return False                     # not on the start + k*interval grid
    if not (when + hl > when):
        return False
    return when + hl - interval <= when  # first boundary strictly after `when`


class _Unsupported(Exception):
    pass


def _translate_howlong(z3, env):
    import ast
    import inspect
    import textwrap
    src = textwrap.dedent(inspect.getsource(LoopingCall._scheduleFrom))
    fns = [n for n in ast.walk(ast.parse(src)) if isinstance(n, ast.FunctionDef) and n.name == "howLong"]
    if len(fns) != 1:
        raise _Unsupported("nested howLong() not found")
    mods = []          # (k, p, a, b): a % b  ==  a - p  with  p == k*b,  b > 0 => p <= a < p + b

    def ex(n, env):
        if isinstance(n, ast.Constant) and isinstance(n.value, (int, float)) and not isinstance(n.value, bool):
            return z3.RealVal(n.value)
        if isinstance(n, ast.Name) and n.id in env:
            return env[n.id]
        if isinstance(n, ast.Attribute) and isinstance(n.value, ast.Name) and n.value.id == "self" \
                and "self." + n.attr in env:
            return env["self." + n.attr]
        if isinstance(n, ast.BinOp):
            a, b = ex(n.left, env), ex(n.right, env)
            if isinstance(n.op, ast.Add):
                return a + b
            if isinstance(n.op, ast.Sub):
                return a - b
            if isinstance(n.op, ast.Mod):
                i = len(mods)
                k, p = z3.Int("k%d" % i), z3.Real("p%d" % i)
                mods.append((k, p, a, b))
                return a - p
        if isinstance(n, ast.Compare) and len(n.ops) == 1:
            a, b = ex(n.left, env), ex(n.comparators[0], env)
            op = n.ops[0]
            for cls, fn in ((ast.Eq, lambda: a == b), (ast.NotEq, lambda: a != b), (ast.Lt, lambda: a < b),
                            (ast.LtE, lambda: a <= b), (ast.Gt, lambda: a > b), (ast.GtE, lambda: a >= b)):
                if isinstance(op, cls):
                    return fn()
        raise _Unsupported("expression " + ast.dump(n)[:80])

    def block(stmts, env):
        if not stmts:
            raise _Unsupported("path without return")
        s, rest = stmts[0], stmts[1:]
        if isinstance(s, ast.Expr) and isinstance(s.value, ast.Constant):
            return block(rest, env)
        if isinstance(s, ast.Assert):
            t = s.test
            if isinstance(t, ast.Compare) and len(t.ops) == 1 and isinstance(t.ops[0], ast.IsNot) \
                    and isinstance(t.comparators[0], ast.Constant) and t.comparators[0].value is None:
                return block(rest, env)
            raise _Unsupported("assert form")
        if isinstance(s, ast.Assign) and len(s.targets) == 1 and isinstance(s.targets[0], ast.Name):
            env = dict(env)
            env[s.targets[0].id] = ex(s.value, env)
            return block(rest, env)
        if isinstance(s, ast.Return) and s.value is not None:
            return ex(s.value, env)
        if isinstance(s, ast.If):
            c = ex(s.test, env)
            return z3.If(c, block(s.body, env), block(list(s.orelse) + rest, env))
        raise _Unsupported("statement " + type(s).__name__)

    term = block(fns[0].body, env)
    return term, mods, src


def lemma_howlong(tier):
    import hashlib
    from fractions import Fraction
    import z3
    t_solver = [0.0]
    nq = [0]

    def check(s):
        t = _time.perf_counter()
        r = s.check()
        t_solver[0] += _time.perf_counter() - t
        nq[0] += 1
        return r

    I, start, when = z3.Reals("interval starttime when")
    env = {"when": when, "self.interval": I, "self.starttime": start}
    try:
        hl, mods, src = _translate_howlong(z3, env)
    except _Unsupported as e:
        return {"status": "unknown", "error": "howLong() is outside the translated fragment: %s" % e,
                "obligations": 0, "discharged": 0, "queries": 0, "solver_time_s": 0.0, "samples": []}
    if len(mods) != 1:
        return {"status": "unknown", "error": "expected exactly one %% in howLong(), found %d" % len(mods),
                "obligations": 0, "discharged": 0, "queries": 0, "solver_time_s": 0.0, "samples": []}
    k, p, ma, mb = mods[0]
    lin = [z3.Implies(mb > 0, z3.And(p <= ma, ma < p + mb))]       # 0 <= a % b < b
    nonlin = [p == z3.ToReal(k) * mb]                              # the multiple of b below a
    pre = [I > 0, when >= start]
    samples = ["source sha256 %s; term: %s" % (hashlib.sha256(src.encode()).hexdigest()[:16],
                                                str(z3.simplify(hl))[:200])]

    # -- translator validation: the term and the real function agree on a grid of dyadic points ---------------
    grid = [(i, s0, s0 + d) for i in (1.0, 2.0, 3.0, 0.5, 0.25, 1.5)
            for s0 in (0.0, 0.5, 1.25) for d in (0.0, 0.25, 0.5, 1.0, 1.75, 3.0, 7.125)]
    for (gi, gs, gw) in grid:
        s = z3.Solver()
        s.set("timeout", 20000)
        s.add(*(lin + nonlin), I == z3.RealVal(str(Fraction(gi))), start == z3.RealVal(str(Fraction(gs))),
              when == z3.RealVal(str(Fraction(gw))))
        if check(s) != z3.sat:
            return {"status": "unknown", "error": "validation point unsat/unknown %r" % ((gi, gs, gw),),
                    "obligations": 0, "discharged": 0, "queries": nq[0], "solver_time_s": t_solver[0], "samples": []}
        v = s.model().eval(hl, model_completion=True)
        got = Fraction(v.numerator_as_long(), v.denominator_as_long())
        real = Fraction(_real_howlong(gi, gs, gw))
        if got != real:
            return {"status": "unknown", "obligations": 0, "discharged": 0, "queries": nq[0],
                    "solver_time_s": t_solver[0], "samples": [],
                    "error": "translation disagrees with the real howLong at %r: %s vs %s" % ((gi, gs, gw), got, real)}
    samples.append("translation == real howLong() on %d dyadic grid points" % len(grid))

    # -- obligations: (name, assumptions, negated claim) ---------------------------------------------------
    x, y = z3.Reals("x y")
    j = z3.Int("j")
    pj = z3.Real("pj")      # stands for j * interval in the linear abstraction
    mono = [z3.Implies(j >= k + 1, pj >= p + I), z3.Implies(j <= k, pj <= p)]
    obl = [
        ("interval == 0 returns 0", [I == 0], z3.Not(hl == 0)),
        ("howLong > 0", pre + lin + nonlin, z3.Not(hl > 0)),
        ("howLong <= interval", pre + lin + nonlin, z3.Not(hl <= I)),
        ("when + howLong == starttime + (k+1)*interval (a boundary)", pre + lin + nonlin,
         z3.Not(when + hl == start + (z3.ToReal(k) + 1) * I)),
        ("when + howLong > when (strictly later)", pre + lin + nonlin, z3.Not(when + hl > when)),
        ("over reals the 'effectively zero' branch is unreachable", pre + lin + nonlin,
         z3.And(when == when + (I - (ma - p)))),
        ("monotonicity (reals): I > 0 and x >= y + 1 => x*I >= y*I + I", [I > 0, x >= y + 1], x * I < y * I + I),
        ("monotonicity (reals): I > 0 and x <= y => x*I <= y*I", [I > 0, x <= y], x * I > y * I),
        ("no boundary starttime + j*interval strictly between when and when + howLong (first boundary; j*interval "
         "abstracted by pj with the two monotonicity instances)", pre + lin + mono,
         z3.And(start + pj > when, start + pj < when + hl)),
    ]
    discharged = 0
    status = "confirmed"
    cex = None
    for name, assume, neg in obl:
        s = z3.Solver()
        s.set("timeout", 60000)
        s.add(*assume)
        s.add(neg)
        r = check(s)
        if r == z3.unsat:
            discharged += 1
            samples.append("unsat (holds): " + name)
        elif r == z3.sat:
            status = "refuted"
            # prefer a dyadic witness so that the float replay is exact
            w8, s8 = z3.Ints("w8 s8")
            s2 = z3.Solver()
            s2.set("timeout", 20000)
            s2.add(*assume)
            s2.add(neg, z3.Or(I == 1, I == 2, I == z3.Q(1, 2)), when == z3.ToReal(w8) / 8, start == z3.ToReal(s8) / 8,
                   start >= 0, when <= 64)
            mdl = s2.model() if check(s2) == z3.sat else s.model()

            def val(t):
                v = mdl.eval(t, model_completion=True)
                return float(Fraction(v.numerator_as_long(), v.denominator_as_long()))
            cex = {"interval": {"__float__": repr(val(I))}, "start": {"__float__": repr(val(start))},
                   "when": {"__float__": repr(val(when))}}
            samples.append("SAT (fails): %s at %r" % (name, cex))
            break
        else:
            if status == "confirmed":
                status = "unknown"
            samples.append("unknown: " + name)
    out = {"status": status, "obligations": len(obl), "discharged": discharged, "queries": nq[0],
           "solver_time_s": round(t_solver[0], 3), "samples": samples}
    if cex is not None:
        out["cex"] = cex
        out["replay_harness"] = "howlong_point"
    return out


lemma_howlong.wall = {"quick": 300, "thorough": 600}
CUSTOM = [lemma_howlong]
