"""C38 telnet transparency: application bytes written through TelnetTransport.write / writeSequence
arrive unchanged at the peer's applicationDataReceived for every segmentation of the wire stream.

Engine E2: the whole module twisted/conch/telnet.py is recompiled from /repo onto LBytes (its
constants are built with bytes((i,)), which the lift maps to the LBytes constructor).  Sender = the
lifted TelnetTransport connected to a recording fake transport; receiver = a subclass of the lifted
Telnet recording applicationDataReceived / commandReceived / negotiate.  The application text is
symbolic (all 256 byte values except CR, as the property states), each byte is case-split by the
solver into {IAC, LF, other} so that wire lengths are concrete per path; the grouping into write /
writeSequence calls, the cut between the two calls and the split index of the wire are symbolic ints
turned into one path per value.
"""
import operator as _operator

from vlib import api, lbytes, lift
from vlib.api import H, cover
from vlib.lift import b, t

PROPERTY = "C38"
LEVEL = "model_checking"
ENCODED = ["twisted.conch.telnet:TelnetTransport.write", "twisted.conch.telnet:ProtocolTransportMixin.write",
           "twisted.conch.telnet:ProtocolTransportMixin.writeSequence", "twisted.conch.telnet:Telnet.dataReceived",
           "twisted.conch.telnet:_chr"]
BOUNDS = {"quick": {"n": 3, "w": 3}, "thorough": {"n": 5, "w": 5}}
B = {}
BOUNDS_TEXT = ("application text of <= n bytes (n=3 quick, 5 thorough), any byte value except CR; written as "
               "write(all) | write(a)+write(b) | writeSequence([a, b]) | write(a)+writeSequence([b]) | "
               "writeSequence([a])+write(b) for every cut a+b; wire delivered in two pieces at every split "
               "index.  Receiver alone: every wire stream of <= w bytes, every split index.")
OUTSIDE = ["application data containing CR (excluded by the property statement; the receiver-only harness "
           "does cover CR NUL / CR LF / CR IAC on the wire)",
           "texts longer than n bytes, more than two write calls, three or more deliveries (the receiver's "
           "state is one of six strings + the command buffer)",
           "option negotiation and subnegotiation content (C39)",
           "wire streams on which the receiver raises ValueError (IAC followed by a byte that is no "
           "command): only 'raises in both the split and the unsplit delivery' is checked there"]
ASSUMPTIONS = ["LBytes reproduces bytes semantics for replace/join/slicing/== (differential selftest on every "
               "run) and the lifted module agrees with the real one on the concrete vectors below (strings "
               "from twisted/conch/test/test_telnet.py)"]
EXPLANATION = "lifted real telnet sender + receiver on symbolic text; byte class, grouping, cut and split case-split by the solver"

L = lift.lift("twisted.conch.telnet", names=None)


def _lb_replace(self, old, new, *count):
    """bytes.replace as a character scan: CrossHair's str.replace on a partly symbolic str builds a z3
    disjunction over all offsets per occurrence; the scan compares concrete code points natively.
    Same results (lbytes.selftest() runs on the patched class via this module's selftest())."""
    o, nw = lbytes._s(old), lbytes._s(new)
    if count or len(o) == 0:
        return _orig_replace(self, old, new, *count)
    s = self.s
    n = len(s)
    if not lbytes._is_conc(n):
        n = _operator.index(n)
    m = len(o)
    out = ""
    i = 0
    while i < n:
        j = 0
        while j < m and i + j < n and s[i + j] == o[j]:
            j += 1
        if j == m:
            out = out + nw
            i += m
        else:
            out = out + s[i]
            i += 1
    return self._new(out)


_orig_replace = lbytes._LBase.replace
if api.MODE != "real":
    lbytes._LBase.replace = _lb_replace

IAC = "\xff"


def _fix(s):
    """the same text rebuilt from its characters, so that its length is a plain int (see props/c16.py)"""
    n = len(s)
    if not lbytes._is_conc(n):
        n = _operator.index(n)
    out = ""
    for i in range(n):
        out = out + s[i]
    return out


def _split_cases(n, split):
    for k in range(n + 1):
        if split == k:
            return k
    return n


def _teq(x, y):
    """robust text equality (see props/c16.py: CrossHair's == on concatenated symbolic strs may return
    a concrete False for equal values in one operand order); only used where equality = success"""
    if x == y:
        return True
    if y == x:
        return True
    n = len(x)
    if n != len(y):
        return False
    for i in range(n):
        if x[i] != y[i]:
            return False
    return True


class FakeTransport:
    disconnecting = False

    def __init__(self):
        self.out = []
        self.calls = 0

    def write(self, d):
        self.calls += 1
        self.out.append(t(d))

    def writeSequence(self, seq):
        self.calls += 1
        for d in seq:
            self.out.append(t(d))

    def loseConnection(self):
        self.disconnecting = True


class Recv(L.Telnet):
    """receiver: records what the state machine hands to the application / to command handling"""

    def __init__(self):
        L.Telnet.__init__(self)
        self.ev = []

    def applicationDataReceived(self, data):
        self.ev.append(("data", t(data)))

    def commandReceived(self, command, argument):
        self.ev.append(("cmd", t(command), t(argument)))

    def negotiate(self, data):
        self.ev.append(("neg", "".join([t(x) for x in data])))


def _classes(text):
    """one path per byte class {IAC, LF, other}: the wire length is then concrete on each path"""
    out = ""
    for ch in text:
        if ch == IAC:
            ch = IAC
        elif ch == "\n":
            ch = "\n"
        out = out + ch
    return out


def _ref_wire(text):
    """RFC 854: data byte 255 is sent as IAC IAC, end of line (LF here) as CR LF"""
    out = ""
    for ch in text:
        if ch == IAC:
            out = out + IAC + IAC
        elif ch == "\n":
            out = out + "\r\n"
        else:
            out = out + ch
    return out


def _send(text, mode, cut):
    tr = FakeTransport()
    tt = L.TelnetTransport()
    tt.makeConnection(tr)
    a, c = text[:cut], text[cut:]
    if mode == 0:
        tt.write(b(text))
    elif mode == 1:
        tt.write(b(a))
        tt.write(b(c))
    elif mode == 2:
        tt.writeSequence([b(a), b(c)])
    elif mode == 3:
        tt.write(b(a))
        tt.writeSequence([b(c)])
    else:
        tt.writeSequence([b(a)])
        tt.write(b(c))
    return "".join(tr.out)


def _receive(wire, k):
    r = Recv()
    r.makeConnection(FakeTransport())
    err = None
    try:
        if k > 0:
            r.dataReceived(b(wire[:k]))
        if k < len(wire):
            r.dataReceived(b(wire[k:]))
    except ValueError:
        err = "ValueError"
    return r, err


def _norm(ev):
    out = []
    for e in ev:
        if e[0] == "data" and out and out[-1][0] == "data":
            out[-1] = ("data", out[-1][1] + e[1])
        else:
            out.append(e)
    return out


def transparent(text: str, mode: int, cut: int, split: int) -> bool:
    """
    pre: len(text) <= B['n'] and all(ord(c) < 256 for c in text) and "\\r" not in text
    pre: 0 <= mode <= 4 and 0 <= cut <= len(text) and (mode > 0 or cut == 0)
    pre: 0 <= split <= 2 * len(text)
    post: _
    """
    text = _classes(_fix(text))
    m = _split_cases(4, mode)
    c = _split_cases(len(text), cut)
    wire = _send(text, m, c)
    k = _split_cases(len(wire), split)
    r, err = _receive(wire, k)
    api.obs((wire, r.ev, err, r.state))
    cover()
    if err is not None:
        return False
    # on the wire: IAC doubled, LF sent as CR LF, nothing else changed
    if not _teq(wire, _ref_wire(text)):
        return False
    # no command / negotiation callback, only application data
    got = ""
    for e in r.ev:
        if e[0] != "data":
            return False
        got = got + e[1]
    # exactly the bytes written, nothing pending in the state machine
    return _teq(got, text) and r.state == "data"


def _ref_plain(w):
    """decoding of a wire stream without IAC: CR LF -> LF, CR NUL -> CR (RFC 854).  Returns None when
    the stream has a CR followed by something else (not to be sent; receiver behaviour unspecified)"""
    out = ""
    i = 0
    n = len(w)
    while i < n:
        ch = w[i]
        if ch == "\r":
            if i + 1 == n:
                return out          # CR pending
            nx = w[i + 1]
            if nx == "\n":
                out = out + "\n"
            elif nx == "\x00":
                out = out + "\r"
            else:
                return None
            i += 2
        else:
            out = out + ch
            i += 1
    return out


def wire_recv(w: str, split: int) -> bool:
    """
    pre: len(w) <= B['w'] and all(ord(c) < 256 for c in w)
    pre: 0 <= split <= len(w)
    post: _
    """
    w = _fix(w)
    k = _split_cases(len(w), split)
    r1, e1 = _receive(w, k)
    r0, e0 = _receive(w, 0)
    api.obs((r1.ev, e1, r0.ev, e0))
    cover()
    if e1 is not None or e0 is not None:
        return e1 == e0
    a, c = _norm(r1.ev), _norm(r0.ev)
    if len(a) != len(c) or r1.state != r0.state:
        return False
    for i in range(len(a)):
        if a[i][0] != c[i][0] or len(a[i]) != len(c[i]):
            return False
        for j in range(1, len(a[i])):
            x, y = a[i][j], c[i][j]
            if x is None or y is None:
                if x is not y:
                    return False
            elif not _teq(x, y):
                return False
    hasiac = False
    for ch in w:
        if ch == IAC:
            hasiac = True
    if not hasiac:
        ref = _ref_plain(w)
        if ref is not None:
            got = ""
            for e in c:
                if e[0] != "data":
                    return False
                got = got + e[1]
            return _teq(got, ref)
    return True


def _tr_shards(tier):
    n = BOUNDS[tier]["n"]
    out = [("mode == 0",)]
    for m in range(1, 5):
        if n <= 3:
            out.append(("mode == %d" % m,))
        else:
            for c in range(0, n + 1):
                out.append(("mode == %d" % m, "cut == %d" % c) if c < n else ("mode == %d" % m, "cut >= %d" % c))
    return out


HARNESSES = [
    H(transparent, shards=_tr_shards, timeout={"quick": 100, "thorough": 1500}),
    H(wire_recv, shards=lambda tier: [("len(w) <= 2",)] + [("len(w) == %d" % n,) for n in range(3, min(4, BOUNDS[tier]["w"]) + 1)]
      + [("len(w) == %d" % n, "split == %d" % k) for n in range(5, BOUNDS[tier]["w"] + 1) for k in range(n + 1)],
      timeout={"quick": 100, "thorough": 1500}),
]

# strings from twisted/conch/test/test_telnet.py (test_applicationDataBeforeSimpleCommand family,
# testEscapedControl "here are some bytes\xff\xff with an embedded IAC", newline tests, a
# subnegotiation b"\xff\xfa\x01\x02\x03\xff\xf0", b"\r\n" -> b"\n", b"\r\x00" -> b"\r")
VECTORS = {
    "transparent": [("here are some bytes\xff with an embedded IAC", 0, 0, 21), ("border escape\xff", 1, 13, 14),
                    ("\xff did you get that IAC?", 2, 1, 1), ("line one\nline two\n", 3, 9, 10),
                    ("\xff\xfb\x01\n\xff", 4, 2, 5), ("\xff\xff", 2, 1, 3), ("", 0, 0, 0), ("\n", 1, 0, 1),
                    ("a\xffb", 3, 1, 2), ("\x00\xf0\xfa", 2, 3, 2)],
    "wire_recv": [("a\r\nb", 2), ("\r\x00", 1), ("\xff\xff", 1), ("\xff\xfb\x01", 2), ("x\xff\xf1y", 2),
                  ("\xff\xfa\x01\x02\x03\xff\xf0", 4), ("\r\xff\xff", 1), ("\rX", 1), ("\xff\x00", 1), ("ab\r", 3),
                  ("\xff\xfa\xff\xff\xff\xf0z", 3)],
}


def selftest():
    return lbytes.selftest()
