"""C30 AMP wire format (boxes) and the text-like argument types.

Engine E2: `AmpBox`, `BinaryBoxProtocol`, `_ParserHelper`/`parseString`, `Argument`, `Integer`, `String`,
`Unicode`, `Boolean`, `ListOf`, `AmpList` (amp.py) and `IntNStringReceiver`, `Int16StringReceiver`,
`StatefulStringProtocol` (basic.py) are recompiled from /repo's source onto LBytes.

Keys: AmpBox is a dict, so a symbolic key text would be realised by hashing.  CHOSEN: keys come from a
menu of concrete keys selected by a symbolic index (lengths 1 and 2, high/zero bytes); VALUES are
symbolic (all 256 byte values, lengths 0..3).  MAX_KEY_LENGTH / MAX_VALUE_LENGTH (module globals used
by serialize) and BinaryBoxProtocol._MAX_KEY_LENGTH / _MAX_VALUE_LENGTH (receive side) are scaled to
2 / 3 in the box harnesses, in the lifted namespace and - in replay - on the real module/instance.
"""
from typing import List

from vlib import api, lbytes, lift
from vlib.api import H, cover
from vlib.lift import b, t

PROPERTY = "C30"
LEVEL = "model_checking"
ENCODED = ["twisted.protocols.amp:AmpBox.serialize", "twisted.protocols.amp:AmpBox.__init__",
           "twisted.protocols.amp:BinaryBoxProtocol.proto_init", "twisted.protocols.amp:BinaryBoxProtocol.proto_key",
           "twisted.protocols.amp:BinaryBoxProtocol.proto_value",
           "twisted.protocols.amp:BinaryBoxProtocol.lengthLimitExceeded",
           "twisted.protocols.amp:BinaryBoxProtocol.sendBox", "twisted.protocols.amp:BinaryBoxProtocol.dataReceived",
           "twisted.protocols.basic:IntNStringReceiver.dataReceived",
           "twisted.protocols.basic:StatefulStringProtocol.stringReceived",
           "twisted.protocols.amp:Integer.toString", "twisted.protocols.amp:Boolean.fromString",
           "twisted.protocols.amp:Boolean.toString", "twisted.protocols.amp:Unicode.toString",
           "twisted.protocols.amp:Unicode.fromString", "twisted.protocols.amp:ListOf.toString",
           "twisted.protocols.amp:ListOf.fromString", "twisted.protocols.amp:AmpList.toStringProto",
           "twisted.protocols.amp:AmpList.fromStringProto", "twisted.protocols.amp:Argument.toBox",
           "twisted.protocols.amp:Argument.fromBox"]
BOUNDS = {"quick": {"v": 3, "int": 10 ** 6, "u": 3}, "thorough": {"v": 3, "int": 10 ** 9, "u": 5}}
B = {}
BOUNDS_TEXT = ("boxes: 5 shapes (1 box x 1 pair, 1 x 2, 2 x 1 with the same key, 2+1 pairs, empty box + 1 pair), keys "
               "from a menu of 3 concrete keys by symbolic index, values of 0..3 symbolic bytes (limit scaled to "
               "3), every split index of the stream (two deliveries); unrepresentable boxes: empty key, key of 3 "
               "> 2, value of 4 > 3, str key, str value, next to a representable pair; received length prefixes "
               "0..5 / 256.. at first-key, value and second-key position; Integer: every |n| < int; Boolean: both values and every "
               "text of <= 5 bytes; String/Unicode: <= u ASCII characters; Unicode over all of Unicode: first character "
               "symbolic in each class (U+FEFF, ASCII, 2-octet, other 3-octet, astral) + <= 1 further character, plain, "
               "as ListOf(Unicode) element and as AmpList field; ListOf(Integer) and ListOf(String) of "
               "<= 2 elements; AmpList of <= 2 dictionaries (Integer, Unicode)")
OUTSIDE = ["Float, Decimal, DateTime, Path argument types (C-level float/decimal/strptime/filesystem parsing is "
           "opaque to the solver): that half of the property is NOT claimed",
           "Unicode texts longer than 2 characters outside ASCII, lone surrogates (not encodable), Integer beyond the "
           "stated magnitude (decimal rendering forks once per digit)",
           "symbolic key TEXT (dict hashing realises it): keys are concrete menu entries chosen symbolically",
           "the real limits 255 / 65535: scaled to 2 / 3 so that both sides of each limit are inside the bound; "
           "boxes with more than 2 pairs, more than 2 boxes, three or more deliveries",
           "TLS start / protocol switching paths of BinaryBoxProtocol"]
ASSUMPTIONS = ["the C codecs utf-8 (encode, decode) and utf-8-sig (decode) are replaced in the lifted code by pure-Python "
               "ports registered in lbytes.CODECS, compared with the C codecs on every run (selftest: all classes, "
               "a stride over all planes, BOM handling, malformed sequences); replay uses the C codecs",
               "LBytes / struct / %d / int() shims reproduce bytes semantics (differentially tested on every run: "
               "selftest) and the lifted classes agree with the real ones on the concrete vectors",
               "transport and boxReceiver are recording fakes; twisted.python.compat.nativeString is replaced by "
               "LBytes.decode('ascii') for the (concrete) AmpList argument names"]
EXPLANATION = ("lifted real AmpBox.serialize / BinaryBoxProtocol parser on symbolic values, shape / key index / "
               "value lengths / split index case-split by the solver; argument types on symbolic ints and text")

_S = lbytes.l_struct


class _IntMeta(type):
    def __instancecheck__(cls, x):
        return isinstance(x, int)


class _IntName(metaclass=_IntMeta):
    """the NAME int in lifted amp.py (`fromString = int`): int(<LBytes>) with bytes semantics"""

    def __new__(cls, x=0, base=None):
        return lbytes.l_int(x, base)


def _native(s):
    if isinstance(s, lbytes._LBase):
        return s.decode("ascii")
    from twisted.python.compat import nativeString
    return nativeString(s)



# ---- UTF-8 codecs in pure Python (the C codecs realise symbolic text) -----------------------------------
# registered in lbytes.CODECS: str.encode("utf-8") of lifted code (encode_calls) and LBytes.decode("utf-8" /
# "utf-8-sig") go through them; both are compared with the C codecs on every run (selftest).

def _utf8_encode(text, errors="strict"):
    out = []
    for c in text:
        o = ord(c)
        if o < 0x80:
            out.append(c)
        elif o < 0x800:
            out.append(chr(0xC0 + o // 64))
            out.append(chr(0x80 + o % 64))
        elif o < 0x10000:
            if 0xD800 <= o <= 0xDFFF:
                raise UnicodeEncodeError("utf-8", "?", 0, 1, "surrogates not allowed")
            out.append(chr(0xE0 + o // 4096))
            out.append(chr(0x80 + (o // 64) % 64))
            out.append(chr(0x80 + o % 64))
        else:
            out.append(chr(0xF0 + o // 262144))
            out.append(chr(0x80 + (o // 4096) % 64))
            out.append(chr(0x80 + (o // 64) % 64))
            out.append(chr(0x80 + o % 64))
    return "".join(out)


def _bad(i):
    return UnicodeDecodeError("utf-8", b"?", i, i + 1, "invalid utf-8")


def _cont(s, i):
    if i >= len(s):
        raise _bad(i)
    o = ord(s[i])
    if not (0x80 <= o <= 0xBF):
        raise _bad(i)
    return o - 0x80


def _utf8_decode(s, errors="strict"):
    """strict UTF-8 decoder over the latin-1 text of the bytes (RFC 3629: no overlongs, no surrogates,
    nothing above U+10FFFF)"""
    if errors != "strict":
        return s.encode("latin-1").decode("utf-8", errors)
    out = []
    i = 0
    n = len(s)
    while i < n:
        o = ord(s[i])
        if o < 0x80:
            out.append(s[i])
            i += 1
        elif o < 0xC2:
            raise _bad(i)
        elif o < 0xE0:
            out.append(chr((o - 0xC0) * 64 + _cont(s, i + 1)))
            i += 2
        elif o < 0xF0:
            v = (o - 0xE0) * 4096 + _cont(s, i + 1) * 64 + _cont(s, i + 2)
            if v < 0x800 or 0xD800 <= v <= 0xDFFF:
                raise _bad(i)
            out.append(chr(v))
            i += 3
        elif o < 0xF5:
            v = (o - 0xF0) * 262144 + _cont(s, i + 1) * 4096 + _cont(s, i + 2) * 64 + _cont(s, i + 3)
            if v < 0x10000 or v > 0x10FFFF:
                raise _bad(i)
            out.append(chr(v))
            i += 4
        else:
            raise _bad(i)
    return "".join(out)


def _utf8sig_decode(s, errors="strict"):
    """the 'utf-8-sig' codec: ONE leading EF BB BF is dropped, then utf-8"""
    if len(s) >= 3 and s[0] == "\xef" and s[1] == "\xbb" and s[2] == "\xbf":
        return _utf8_decode("".join([s[i] for i in range(3, len(s))]), errors)
    return _utf8_decode(s, errors)


lbytes.CODECS["utf-8"] = lbytes.CODECS["utf8"] = (_utf8_encode, _utf8_decode)
lbytes.CODECS["utf-8-sig"] = (None, _utf8sig_decode)


def _ref_utf8(s):
    """harness-side reference encoding, written independently of the shim (RFC 3629 table; payload
    groups peeled off from the low end)"""
    out = ""
    for c in s:
        o = ord(c)
        if o <= 0x7F:
            out = out + c
            continue
        if o <= 0x7FF:
            k, lead = 1, 0xC0
        elif o <= 0xFFFF:
            k, lead = 2, 0xE0
        else:
            k, lead = 3, 0xF0
        tail = ""
        v = o
        for _ in range(k):
            q = v // 64
            tail = chr(0x80 + (v - 64 * q)) + tail
            v = q
        out = out + chr(lead + v) + tail
    return out


_BASIC = lift.lift("twisted.protocols.basic",
                   names=["IntNStringReceiver", "Int16StringReceiver", "StatefulStringProtocol"],
                   overrides={"pack": _S.pack, "unpack": _S.unpack, "calcsize": _S.calcsize})
L = lift.lift("twisted.protocols.amp",
              names=["AmpBox", "Box", "BinaryBoxProtocol", "_wireNameToPythonIdentifier", "Argument", "Integer",
                     "String", "Unicode", "Boolean", "ListOf", "AmpList", "_ParserHelper", "parse", "parseString"],
              overrides={"pack": _S.pack, "Int16StringReceiver": _BASIC.Int16StringReceiver,
                         "StatefulStringProtocol": _BASIC.StatefulStringProtocol, "nativeString": _native},
              extra_shims={"int": _IntName}, encode_calls=True)
from twisted.protocols import amp as _real  # noqa: E402
TooLong = _real.TooLong

KEYS = ["a", "\xff\x00", "b"]


def _limits(k, v):
    # module globals read by AmpBox.serialize (every harness sets them first: no state leaks)
    if L.__real__:
        _real.MAX_KEY_LENGTH = k
        _real.MAX_VALUE_LENGTH = v
    else:
        L.__ns__["MAX_KEY_LENGTH"] = k
        L.__ns__["MAX_VALUE_LENGTH"] = v


class _Transport:
    def __init__(self):
        self.out = []
        self.lost = 0

    def write(self, data):
        self.out.append(t(data))

    def loseConnection(self):
        self.lost += 1


class _Receiver:
    def __init__(self):
        self.boxes = []
        self.stopped = []

    def startReceivingBoxes(self, sender):
        self.sender = sender

    def ampBoxReceived(self, box):
        self.boxes.append(box)

    def stopReceivingBoxes(self, reason):
        self.stopped.append(reason)


def _proto(scaled=True):
    _limits(2, 3) if scaled else _limits(255, 65535)
    r = _Receiver()
    p = L.BinaryBoxProtocol(r)
    tr = _Transport()
    p.makeConnection(tr)
    if scaled:
        p._MAX_KEY_LENGTH = 2
        p._MAX_VALUE_LENGTH = 3
        p.MAX_LENGTH = 2
    return p, r, tr


def _pick(i):
    for j in range(len(KEYS)):
        if i == j:
            return KEYS[j]
    return KEYS[0]


def _fix(v, maxn):
    """same text with a concrete length (one path per length)"""
    for n in range(maxn + 1):
        if len(v) == n:
            return "".join([v[i] for i in range(n)])
    raise AssertionError("length out of bound")


def _split_cases(n, split):
    for k in range(n + 1):
        if split == k:
            return k
    return n


def _items(box):
    return sorted([(t(k), t(v)) for k, v in box.items()])


def _deliver(p, stream, k):
    if k > 0:
        p.dataReceived(b(stream[:k]))
    if k < len(stream):
        p.dataReceived(b(stream[k:]))


def _pairs(shape, ki, v1, v2, v3):
    k1 = _pick(ki)
    k2 = _pick(ki + 1 if ki < 2 else 0)
    if shape == 0:
        return [[(k1, v1)]]
    if shape == 1:
        return [[(k1, v1), (k2, v2)]]
    if shape == 2:
        return [[(k1, v1)], [(k1, v2)]]
    if shape == 3:
        return [[(k2, v2), (k1, v1)], [(k2, v3)]]
    return [[], [(k1, v1)]]


def roundtrip(shape: int, ki: int, v1: str, v2: str, v3: str, split: int) -> bool:
    """
    pre: 0 <= shape <= 4 and 0 <= ki <= 2
    pre: len(v1) <= 3 and len(v2) <= 3 and len(v3) <= 1 and (shape != 3 or len(v2) <= 1)
    pre: (shape in (1, 2, 3) or len(v2) == 0) and (shape == 3 or len(v3) == 0)
    pre: all(ord(c) < 256 for c in v1 + v2 + v3)
    pre: 0 <= split
    post: _
    """
    v1 = _fix(v1, 3)
    v2 = _fix(v2, 3) if shape in (1, 2, 3) else ""
    v3 = _fix(v3, 1) if shape == 3 else ""
    spec = _pairs(shape, ki, v1, v2, v3)
    sender, _, tr = _proto()
    want = []
    for pairs in spec:
        box = L.AmpBox()
        for k, v in pairs:
            box[b(k)] = b(v)
        sender.sendBox(box)
        want.append(sorted(pairs))
    if len(tr.out) != len(spec):
        return False
    wire = "".join(tr.out)
    api.obs(wire)
    # the wire form itself: pairs in key order, 16-bit lengths, terminated by an empty key
    exp = ""
    for pairs in want:
        for k, v in pairs:
            exp = exp + "\0" + chr(len(k)) + k + "\0" + chr(len(v)) + v
        exp = exp + "\0\0"
    if wire != exp:
        return False
    p, r, rtr = _proto()
    sp = _split_cases(len(wire), split)
    _deliver(p, wire, sp)
    got = [_items(x) for x in r.boxes]
    api.obs(got)
    cover()
    if got != want:
        return False
    return (rtr.lost == 0 and t(p._unprocessed) == "" and p.state == "init" and p._currentBox is None
            and p._currentKey is None and p.MAX_LENGTH == 2 and not p._keyLengthLimitExceeded)


def partial_box(ki: int, v1: str, cut: int) -> bool:
    """
    pre: 0 <= ki <= 2 and len(v1) <= 3 and all(ord(c) < 256 for c in v1)
    pre: 0 <= cut
    post: _
    """
    # every proper prefix of a box: nothing is delivered, nothing is dropped; the remainder completes it
    v1 = _fix(v1, 3)
    k1 = _pick(ki)
    sender, _, tr = _proto()
    sender.sendBox(L.AmpBox({b(k1): b(v1), b("z"): b("")}))
    wire = "".join(tr.out)
    p, r, rtr = _proto()
    c = _split_cases(len(wire) - 1, cut)
    if c > 0:
        p.dataReceived(b(wire[:c]))
    cover()
    if r.boxes != [] or rtr.lost != 0:
        return False
    p.dataReceived(b(wire[c:]))
    return [_items(x) for x in r.boxes] == [sorted([(k1, v1), ("z", "")])] and p.state == "init"


def refuse(kind: int, ki: int, v1: str, first: bool) -> bool:
    """
    pre: 0 <= kind <= 4 and 0 <= ki <= 2
    pre: len(v1) <= 3 and all(ord(c) < 256 for c in v1)
    post: _
    """
    # a box that cannot be represented is refused when sent, and NOTHING is written for it
    v1 = _fix(v1, 3)
    k1 = _pick(ki)
    sender, _, tr = _proto()
    box = L.AmpBox()
    box[b(k1)] = b(v1)
    if kind == 0:
        box[b("")] = b("x")
        exc = ValueError
    elif kind == 1:
        box[b("\x00kk" if first else "zzz")] = b("x")
        exc = TooLong
    elif kind == 2:
        box[b("\x00" if first else "zz")] = b(v1 + "wxyz"[len(v1):])
        exc = TooLong
    elif kind == 3:
        box["\x00" if first else "zz"] = b("x")      # text key added after construction
        exc = TypeError
    else:
        box[b("\x00" if first else "zz")] = "x"      # text value
        exc = TypeError
    raised = None
    try:
        sender.sendBox(box)
    except (ValueError, TooLong, TypeError) as e:
        raised = type(e)
    cover()
    if raised is not exc or tr.out != []:
        return False
    # the connection is still usable: a representable box goes out afterwards, intact
    sender.sendBox(L.AmpBox({b(k1): b(v1)}))
    return tr.out == ["\0" + chr(len(k1)) + k1 + "\0" + chr(len(v1)) + v1 + "\0\0"]


def recv_limits(n: int, hi: bool, pos: int, fill: str, split: int) -> bool:
    """
    pre: 0 <= n <= 5 and 0 <= pos <= 2 and len(fill) == 5 and all(ord(c) < 256 for c in fill)
    pre: 0 <= split
    post: _
    """
    # receive side: a key length prefix above 2 / a value length prefix above 3 (scaled limits) stops
    # the parser and closes the transport before any of the announced bytes are interpreted.
    # pos 0: first key of a box; pos 1: value; pos 2: second key (after a complete pair)
    k = _split_cases(5, n)
    length = k + (256 if hi else 0)
    p, r, rtr = _proto()
    # the announced bytes: symbolic at value position; concrete at key position (a received key becomes a
    # dict key, which would realise symbolic text)
    isval = pos == 1
    body = fill[:k] if isval else "kxyzw"[:k]
    lead = ["", "\0\1a", "\0\1a\0\1v"][_split_cases(2, pos)]
    stream = lead + ("\1" if hi else "\0") + chr(k) + body + "\0\0\0\0"
    sp = _split_cases(len(stream), split)
    _deliver(p, stream, sp)
    cover()
    limit = 3 if isval else 2
    if length > limit:
        return r.boxes == [] and rtr.lost >= 1 and p._keyLengthLimitExceeded
    if rtr.lost != 0:
        return False
    got = [_items(x) for x in r.boxes]
    if pos == 1:
        return got == [[("a", body)], []]
    if pos == 2:
        if k == 0:
            return got == [[("a", "v")], [], []]
        return got == [sorted([("a", "v"), (body, "")])]
    if k == 0:
        return got == [[], [], []]
    return got == [[(body, "")]]


# ---- argument types --------------------------------------------------------------------------------

def _digits_value(s):
    v = 0
    for ch in s:
        o = ord(ch)
        if not (48 <= o <= 57):
            return None
        v = v * 10 + (o - 48)
    return v


def arg_integer(n: int) -> bool:
    """
    pre: -B['int'] < n < B['int']
    post: _
    """
    _limits(255, 65535)
    a = L.Integer()
    enc = a.toString(n)
    e = t(enc)
    api.obs(e)
    back = a.fromString(enc)
    cover()
    if back != n or isinstance(back, bool):
        return False
    # canonical decimal rendering: optional '-', no leading zeros, value n
    body = e[1:] if n < 0 else e
    if n < 0 and e[:1] != "-":
        return False
    if len(body) == 0 or (len(body) > 1 and body[0] == "0"):
        return False
    v = _digits_value(body)
    return v is not None and v == (-n if n < 0 else n)


def arg_boolean(v: bool, s: str) -> bool:
    """
    pre: len(s) <= 5 and all(ord(c) < 256 for c in s)
    post: _
    """
    _limits(255, 65535)
    a = L.Boolean()
    enc = a.toString(v)
    if a.fromString(enc) is not v:
        return False
    if t(enc) != ("True" if v else "False"):
        return False
    cover()
    # decoding arbitrary text: exactly the two spellings are accepted
    try:
        r = a.fromString(b(s))
    except TypeError:
        r = "TypeError"
    if s == "True":
        return r is True
    if s == "False":
        return r is False
    return isinstance(r, str) and r == "TypeError"


def arg_text(u: str) -> bool:
    """
    pre: len(u) <= B['u'] and all(ord(c) < 128 for c in u)
    post: _
    """
    _limits(255, 65535)
    ua = L.Unicode()
    enc = ua.toString(u)
    back = ua.fromString(enc)
    sa = L.String()
    raw = sa.fromString(sa.toString(b(u)))
    cover()
    return isinstance(back, str) and back == u and t(enc) == u and t(raw) == u


def arg_unicode(first: str, rest: str, wrap: int) -> bool:
    """
    pre: len(first) == 1 and len(rest) <= 1 and 0 <= wrap <= 2
    pre: not (0xD800 <= ord(first) <= 0xDFFF) and all(not (0xD800 <= ord(c) <= 0xDFFF) for c in rest)
    post: _
    """
    # Unicode argument over ALL of Unicode (classes split by shards: U+FEFF - which a BOM-stripping decoder
    # would swallow -, ASCII, 2-octet, other 3-octet, astral): decoded text == original text, wire form ==
    # UTF-8; plain (wrap 0), as ListOf(Unicode) element (1), as AmpList field (2)
    _limits(255, 65535)
    u = first + _fix(rest, 1) if len(rest) > 0 else first
    want = _ref_utf8(u)
    ua = L.Unicode()
    w = _split_cases(2, wrap)
    cover()
    if w == 0:
        enc = ua.toString(u)
        back = ua.fromString(enc)
        return isinstance(back, str) and len(back) == len(u) and back == u and t(enc) == want
    if w == 1:
        lu = L.ListOf(L.Unicode())
        enc = lu.toString([u, "", u])
        back = lu.fromString(enc)
        if t(enc) != "\0" + chr(len(want)) + want + "\0\0" + "\0" + chr(len(want)) + want:
            return False
        return len(back) == 3 and back[0] == u and back[1] == "" and back[2] == u
    al = L.AmpList([(b("t"), L.Unicode()), (b("n"), L.Integer())])
    enc = al.toStringProto([{"t": u, "n": 7}], None)
    back = al.fromStringProto(enc, None)
    return len(back) == 1 and back[0]["t"] == u and len(back[0]["t"]) == len(u) and back[0]["n"] == 7


def arg_listof(xs: List[int]) -> bool:
    """
    pre: len(xs) <= 2 and all(-1000 < x < 1000 for x in xs)
    post: _
    """
    _limits(255, 65535)
    li = L.ListOf(L.Integer())
    enc = li.toString(list(xs))
    back = li.fromString(enc)
    cover()
    if not (isinstance(back, list) and len(back) == len(xs)):
        return False
    for i in range(len(xs)):
        if back[i] != xs[i]:
            return False
    return t(li.toString([])) == "" and li.fromString(b("")) == []


def arg_listof_str(s1: str, s2: str, two: bool) -> bool:
    """
    pre: len(s1) <= 2 and len(s2) <= 1 and all(ord(c) < 256 for c in s1 + s2)
    post: _
    """
    _limits(255, 65535)
    s1 = _fix(s1, 2)
    s2 = _fix(s2, 1)
    strs = [s1, s2] if two else [s1]
    ls = L.ListOf(L.String())
    enc2 = ls.toString([b(x) for x in strs])
    back2 = ls.fromString(enc2)
    cover()
    # framing of the string list: 16-bit length + element, in order
    exp = ""
    for x in strs:
        exp = exp + "\0" + chr(len(x)) + x
    if t(enc2) != exp:
        return False
    return [t(x) for x in back2] == strs


def arg_amplist(n: int, a1: int, u1: str, a2: int) -> bool:
    """
    pre: 0 <= n <= 2 and -1000 < a1 < 1000 and -10 < a2 < 100
    pre: len(u1) <= 2 and all(ord(c) < 128 for c in u1)
    post: _
    """
    _limits(255, 65535)
    u1 = _fix(u1, 2)
    al = L.AmpList([(b("a"), L.Integer()), (b("b"), L.Unicode())])
    objs = []
    if n >= 1:
        objs.append({"a": a1, "b": u1})
    if n >= 2:
        objs.append({"a": a2, "b": ""})
    enc = al.toStringProto([dict(o) for o in objs], None)
    api.obs(len(enc))
    back = al.fromStringProto(enc, None)
    cover()
    if not (isinstance(back, list) and len(back) == len(objs)):
        return False
    for i in range(len(objs)):
        d = back[i]
        if sorted(d.keys()) != ["a", "b"]:
            return False
        if d["a"] != objs[i]["a"] or d["b"] != objs[i]["b"]:
            return False
    return True


HARNESSES = [
    H(roundtrip, shards=lambda tier: [("shape == %d" % s, "len(v1) == %d" % n) for s in range(5) for n in range(4)],
      timeout={"quick": 100, "thorough": 600}),
    H(partial_box, timeout={"quick": 60, "thorough": 300}),
    H(refuse, shards=[("kind == %d" % k,) for k in range(5)], timeout={"quick": 60, "thorough": 300}),
    H(recv_limits, shards=[("pos == %d" % i,) for i in range(3)], timeout={"quick": 60, "thorough": 300}),
    H(arg_integer, shards=[("n >= 0",), ("n < 0",)], timeout={"quick": 60, "thorough": 600}),
    H(arg_boolean, timeout={"quick": 60, "thorough": 300}),
    H(arg_text, timeout={"quick": 60, "thorough": 300}),
    H(arg_unicode, shards=[("ord(first) == 0xFEFF",), ("ord(first) < 0x80",), ("0x80 <= ord(first) < 0x800",),
                           ("0x800 <= ord(first) < 0x10000", "ord(first) != 0xFEFF"), ("ord(first) >= 0x10000",)],
      timeout={"quick": 100, "thorough": 300}),
    H(arg_listof, shards=[("len(xs) == %d" % n,) for n in range(3)], timeout={"quick": 100, "thorough": 300}),
    H(arg_listof_str, timeout={"quick": 100, "thorough": 300}),
    H(arg_amplist, shards=[("n == %d" % n,) for n in range(3)], timeout={"quick": 100, "thorough": 300}),
]

VECTORS = {
    "roundtrip": [(0, 0, "x", "", "", 0), (1, 1, "abc", "\x00\xff", "", 5), (2, 2, "", "hel", "", 9),
                  (3, 0, "\xff\xfe\xfd", "l", "!", 12), (4, 1, "v", "", "", 3), (3, 2, "", "", "", 30)],
    "partial_box": [(0, "abc", 0), (1, "", 4), (2, "\x00\x00", 11)],
    "refuse": [(0, 0, "x", True), (1, 1, "abc", True), (1, 1, "abc", False), (2, 2, "", False), (2, 0, "abc", True),
               (3, 0, "q", True), (3, 0, "q", False), (4, 1, "\xff", True), (0, 2, "", False)],
    "recv_limits": [(0, False, 0, "abcde", 0), (2, False, 0, "abcde", 3), (3, False, 0, "abcde", 1),
                    (3, False, 1, "abcde", 6), (4, False, 1, "abcde", 2), (0, True, 0, "abcde", 0),
                    (1, True, 1, "abcde", 4), (5, False, 0, "\x00\x01\x02\x03\x04", 9), (2, False, 2, "abcde", 7),
                    (3, False, 2, "abcde", 12), (0, False, 2, "abcde", 5)],
    "arg_integer": [(0,), (7,), (-1,), (10,), (999999,), (-999999,), (123456,), (-100,)],
    "arg_boolean": [(True, "True"), (False, "False"), (True, "true"), (False, ""), (True, "Falsf"), (False, "1")],
    "arg_text": [("",), ("abc",), ("\x00\x7f",)],
    "arg_unicode": [("\ufeff", "", 0), ("\ufeff", "a", 1), ("\ufeff", "\ufeff", 2), ("a", "\ufeff", 0), ("\xe9", "", 1),
                    ("\u20ac", "\x00", 2), ("\U0001f600", "\xff", 0), ("\uffff", "\U0010ffff", 1), ("\x00", "", 2),
                    ("\u0800", "\u07ff", 0), ("\ufffe", "", 0)],
    "arg_listof": [([],), ([1, -20],), ([999],), ([0, 0],)],
    "arg_listof_str": [("", "", False), ("ab", "c", True), ("\x00\xff", "", True), ("", "", True)],
    "arg_amplist": [(0, 1, "x", 2), (1, -5, "hi", 0), (2, 999, "", -9), (2, 0, "a\x7f", 12)],
}


def selftest():
    n = lbytes.selftest()
    # the int-name shim and the arithmetic %d against the real things
    for s in (b"0", b"-12", b"+7", b" 42 ", b"007", b"", b"1x", b"-", b"999999"):
        try:
            want = int(s)
        except ValueError:
            want = "ValueError"
        try:
            got = _IntName(lbytes.LBytes(s))
        except ValueError:
            got = "ValueError"
        assert want == got, (s, want, got)
        n += 1
    for v in (0, 1, 9, 10, 99, 100, 12345, 999999, 10 ** 9 - 1):
        assert lbytes._dec_arith(v) == "%d" % v
        assert (lbytes.LBytes("%d") % (-v,)) == (b"%d" % (-v,))
        n += 2
    assert isinstance(5, _IntName) and not isinstance("5", _IntName)
    # the UTF-8 codec ports against the C codecs: class boundaries, a stride over all planes, BOM handling,
    # and malformed input (must be refused exactly when the C codec refuses it)
    cps = [0, 1, 0x7F, 0x80, 0x7FF, 0x800, 0xD7FF, 0xE000, 0xFEFF, 0xFFFE, 0xFFFF, 0x10000, 0x10FFFF]
    cps += list(range(0, 0x110000, 263))
    for cp in cps:
        if 0xD800 <= cp <= 0xDFFF:
            continue
        for txt in (chr(cp), "a" + chr(cp), chr(cp) + "\ufeff", "\ufeff" + chr(cp)):
            want = txt.encode("utf-8").decode("latin-1")
            assert _utf8_encode(txt) == want and _ref_utf8(txt) == want, (cp, txt)
            assert _utf8_decode(want) == txt
            assert _utf8sig_decode(want) == txt.encode("utf-8").decode("utf-8-sig"), (cp, txt)
            n += 4
    import itertools
    alpha = [0x00, 0x41, 0x7F, 0x80, 0xBF, 0xC0, 0xC1, 0xC2, 0xDF, 0xE0, 0xED, 0xEF, 0xF0, 0xF4, 0xF5, 0xFF, 0x9F, 0xA0,
             0x8F, 0x90, 0xBB]
    for k in (1, 2, 3):
        for tup in itertools.product(alpha, repeat=k):
            raw = bytes(tup)
            for codec, fn in (("utf-8", _utf8_decode), ("utf-8-sig", _utf8sig_decode)):
                try:
                    want = raw.decode(codec)
                except UnicodeDecodeError:
                    want = "ERR"
                try:
                    got = fn(raw.decode("latin-1"))
                except UnicodeDecodeError:
                    got = "ERR"
                assert want == got, (raw, codec, want, got)
                n += 1
    for raw in (b"\xf0\x90\x80\x80", b"\xf4\x8f\xbf\xbf", b"\xf4\x90\x80\x80", b"\xf0\x8f\xbf\xbf", b"\xef\xbb\xbf\xef\xbb\xbf"):
        for codec, fn in (("utf-8", _utf8_decode), ("utf-8-sig", _utf8sig_decode)):
            try:
                want = raw.decode(codec)
            except UnicodeDecodeError:
                want = "ERR"
            try:
                got = fn(raw.decode("latin-1"))
            except UnicodeDecodeError:
                got = "ERR"
            assert want == got, (raw, codec)
            n += 1
    return n
