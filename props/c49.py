"""C49 thread-pool Team with in-memory workers: every task exactly once, workers within the limit.

The Team is built by the REAL `twisted._threads._pool.pool()` (so the real `limitedWorkerCreator`
limit check is executed); only the two constructors that would start OS threads are rebound for
the duration of a harness run: `LockWorker(...)` -> the real `createMemoryWorker()` (coordinator)
and `ThreadWorker(...)` -> a fresh real `createMemoryWorker()` per created worker.  The harness
plays scheduler: a symbolic history of API calls and single "perform one queued item" steps of the
coordinator / of a worker, then a deterministic drain, then the oracle.
"""
import sys
from typing import List

from twisted._threads import _memory, _pool
from twisted._threads._ithreads import AlreadyQuit
from twisted._threads._memory import NoMoreWork

from vlib.api import H, cover

PROPERTY = "C49"
LEVEL = "model_checking"
ENCODED = ["twisted._threads._team:Team.do", "twisted._threads._team:Team.grow",
           "twisted._threads._team:Team.shrink", "twisted._threads._team:Team.quit",
           "twisted._threads._team:Team._coordinateThisTask", "twisted._threads._team:Team._recycleWorker",
           "twisted._threads._team:Team._quitIdlers", "twisted._threads._team:Team.statistics",
           "twisted._threads._pool:pool",
           "twisted._threads._memory:createMemoryWorker", "twisted._threads._memory:MemoryWorker.do",
           "twisted._threads._memory:MemoryWorker.quit", "twisted._threads._convenience:Quit.set",
           "twisted._threads._convenience:Quit.check"]
BOUNDS = {"quick": {"hist": 3, "eager": 4, "sched": 6}, "thorough": {"hist": 4, "eager": 5, "sched": 7}}
B = {}
BOUNDS_TEXT = ("three exhaustive families of event histories from a fresh Team, each followed by a full drain "
               "(coordinator and all workers performed until nothing is runnable) and the oracle: "
               "`history` <= hist events over all eight events {do(task), grow(n), shrink(n), quit, change limit, "
               "step coordinator, step 1st busy worker, step 2nd busy worker}; `eager` <= eager events over the same "
               "events with the coordinator performing every item as soon as it is queued (the LockWorker "
               "discipline; no 'step coordinator' event); `sched` <= sched events over {do, quit, change limit, step "
               "coordinator, step 1st/2nd busy worker} with at most one failing task (which one, and whether it raises an Exception or a BaseException "
               "that is not an Exception, is symbolic).  history/eager: every task symbolically succeeds, raises an "
               "Exception or raises a non-Exception BaseException; every n symbolic in 0..2.  Limit symbolic "
               "in 1..2 (initial value symbolic; the change event switches to the other value)")
OUTSIDE = ["real OS threads: ThreadWorker, LockWorker, ThreadPool (threadpool.py: callInThreadWithCallback, stop, "
           "adjustPoolsize) and their locking are not executed; the coordinator and all workers are twisted's own "
           "MemoryWorker, stepped by the harness - the second sentence of the property (real thread pool) is not claimed",
           "limit 0 (unstarted ThreadPool), more than two simultaneous workers, shrink(None)",
           "which idle worker set.pop() selects: idle workers are indistinguishable (empty queue, not quit); "
           "the harness gives workers a deterministic hash so one selection order is explored",
           "histories longer than the bounds; grow/shrink events combined with a lazily stepped coordinator beyond "
           "`hist` events"]
ASSUMPTIONS = ["a history event that is verified to be a no-op (stepping an empty queue or a worker that is not "
               "busy; an API call refused with AlreadyQuit that leaves the coordinator queue unchanged; grow(0)/"
               "shrink(0) with the eager coordinator) ends the path after that check: the same history without the "
               "event is a shorter history inside the bound",
               "the symbolic task outcome / grow-shrink count / limit are decided by the solver at the point "
               "where the real code first looks at them",
               "_pool.pool() is the real function; only the names LockWorker/ThreadWorker/err it looks up are "
               "rebound to memory-worker factories and a counting logException for the duration of a run"]
EXPLANATION = ("real pool()-built Team over real MemoryWorkers; the solver chooses the event history, task "
               "outcomes, counts and limit; reference bookkeeping in the harness is compared after every event "
               "and after the final drain")

DO, GROW, SHRINK, QUIT, LIMIT, STEPC, STEPW0, STEPW1 = range(8)


class _TaskError(Exception):
    pass


class _TaskAbort(BaseException):
    """a task failure that is NOT an Exception (like KeyboardInterrupt / asyncio.CancelledError)"""


class _HWorker(_memory.MemoryWorker):
    # deterministic hash (creation index): Team._idle is a set and id()-based hashes would make
    # set.pop() depend on addresses (different from path to path)
    _vidx = 0

    def __hash__(self):
        return self._vidx

    def __eq__(self, other):
        return self is other


class _World:
    def __init__(self, lim0):
        self.limit = lim0
        self.workers = []      # (worker, perform) in creation order
        self.bad = None        # first oracle violation seen inside a callback
        self.logged = 0        # logException calls
        self.raised = 0        # tasks that raised
        self.runs = []         # per accepted task: times run
        self.running = False
        self.coord = None
        self.cperform = None
        self.team = None

    def flag(self, what):
        if self.bad is None:
            self.bad = what

    # -- stand-ins for the two thread-starting constructors (rebound in _pool for one run) --
    def lockworker(self, lock, local):
        return self.coord

    def threadworker(self, startThread, queue):
        live = 0
        for w, _p in self.workers:
            if not w._quit.isSet:
                live += 1
        if not (live < self.limit):
            self.flag("worker created while %d live workers, limit reached" % live)
        saved = _memory.MemoryWorker
        _memory.MemoryWorker = _HWorker
        try:
            w, perform = _memory.createMemoryWorker()
        finally:
            _memory.MemoryWorker = saved
        w._vidx = len(self.workers)
        self.workers.append((w, perform))
        return w

    def logexc(self):
        e = sys.exc_info()[1]
        if not isinstance(e, (_TaskError, _TaskAbort)):
            raise  # never swallow anything but the task's own error (CrossHair control flow!)
        self.logged += 1

    def task(self, i, flag):
        def run():
            if self.running:
                self.flag("task re-entered")
            self.running = True
            self.runs[i] += 1
            if self.runs[i] > 1:
                self.flag("task ran twice")
            self.running = False
            k = flag()       # 0 ok / 1 raises an Exception / 2 raises a BaseException that is not an
            if k == 1:       # Exception: decided by the solver here, when the task runs
                self.raised += 1
                raise _TaskError()
            if k == 2:
                self.raised += 1
                raise _TaskAbort()
        return run

    def ready(self):
        """workers whose next perform() would do something, in creation order"""
        out = []
        for w, p in self.workers:
            if w._pending and w._pending[0] is not NoMoreWork:
                out.append((w, p))
        return out

    def check_queues(self):
        # a worker is never handed a second task while one is outstanding, nothing after its quit
        for w, _p in self.workers:
            n = 0
            seen_quit = False
            for it in w._pending:
                if it is NoMoreWork:
                    if seen_quit:
                        self.flag("worker quit twice")
                    seen_quit = True
                else:
                    n += 1
                    if seen_quit:
                        self.flag("work queued after quit")
            if n > 1:
                self.flag("two tasks queued on one worker")
        st = self.team.statistics()
        if st.busyWorkerCount < 0 or st.idleWorkerCount < 0:
            self.flag("negative statistics")


def _outcome(p):
    return lambda: p


def _one_raiser(ti, rk, rb):
    """task ti fails iff it is the rk-th task; rb chooses the kind of failure (both decided lazily)"""
    def kind():
        if ti == rk:
            return 2 if rb else 1
        return 0
    return kind


def _refused(world, call):
    n = len(world.coord._pending)
    try:
        call()
    except AlreadyQuit:
        return len(world.coord._pending) == n
    return False


def _run(lim0, ops, ps, eager=False, one_raiser=None, nosize=False, raiser_base=False):
    """eager: the coordinator performs every item as soon as it is queued (the discipline of the real
    LockWorker with a single calling thread) and STEPC is not an event.  one_raiser: index of the only
    task that raises (instead of one outcome per task)."""
    world = _World(lim0)
    world.coord, world.cperform = _memory.createMemoryWorker()
    saved = (_pool.LockWorker, _pool.ThreadWorker, _pool.err)
    _pool.LockWorker, _pool.ThreadWorker, _pool.err = world.lockworker, world.threadworker, world.logexc
    try:
        team = world.team = _pool.pool(lambda: world.limit)
        quit_called = False
        for i in range(len(ops)):
            o = ops[i]
            p = ps[i]
            if nosize and (o == GROW or o == SHRINK):
                return True    # not an event of this harness
            if o <= QUIT:
                if quit_called:
                    # refused, nothing queued: a no-op event (path ends, see ASSUMPTIONS)
                    if o == DO:
                        return _refused(world, lambda: team.do(world.task(0, _outcome(0))))
                    if o == GROW:
                        return _refused(world, lambda: team.grow(p))
                    if o == SHRINK:
                        return _refused(world, lambda: team.shrink(p))
                    return _refused(world, team.quit)
                if o == DO:
                    world.runs.append(0)
                    ti = len(world.runs) - 1
                    if one_raiser is None:
                        team.do(world.task(ti, _outcome(p)))
                    else:
                        team.do(world.task(ti, _one_raiser(ti, one_raiser, raiser_base)))
                elif o == GROW:
                    team.grow(p)
                elif o == SHRINK:
                    team.shrink(p)
                else:
                    team.quit()
                    quit_called = True
            elif o == LIMIT:
                world.limit = 3 - world.limit
            elif o == STEPC:
                if eager or not world.cperform():
                    return True    # no-op event
            else:
                rd = world.ready()
                k = o - STEPW0
                if k >= len(rd):
                    return True    # no-op event
                if not rd[k][1]():
                    return False
            if eager:
                while world.cperform():
                    pass
                if (o == GROW or o == SHRINK) and not quit_called and p == 0:
                    return True    # grow(0)/shrink(0) performed at once: a no-op event
            world.check_queues()
            if world.bad is not None:
                return False
        # ---- drain: run everything that is runnable until nothing is ----
        for _round in range(4 * len(ops) + 8):
            progress = False
            while world.cperform():
                progress = True
                world.check_queues()
            for w, perform in list(world.workers):
                while perform():
                    progress = True
            if not progress:
                break
        else:
            return False
        world.check_queues()
        cover()
        if world.bad is not None:
            return False
        # every accepted task ran exactly once; every raising task was logged, nothing else was
        for r in world.runs:
            if r != 1:
                return False
        if world.logged != world.raised:
            return False
        st = team.statistics()
        if st.busyWorkerCount != 0 or st.backloggedWorkCount != 0:
            return False
        live = [w for w, _p in world.workers if not w._quit.isSet]
        if quit_called:
            # every worker stopped exactly once (a second quit() raises; queues were checked), the
            # coordinator too, and the team refuses everything
            if live or st.idleWorkerCount != 0:
                return False
            for w, _p in world.workers:
                if w._pending != [NoMoreWork]:
                    return False
            if not world.coord._quit.isSet or world.coord._pending != [NoMoreWork]:
                return False
            if not _refused(world, lambda: team.do(world.task(0, _outcome(0)))):
                return False
            if not _refused(world, lambda: team.grow(1)):
                return False
            if not _refused(world, lambda: team.shrink(1)):
                return False
            if not _refused(world, team.quit):
                return False
            if world.runs and world.runs[0] != 1:
                return False
        else:
            # all remaining workers are idle, usable and known to the team; never more than 2 alive
            if st.idleWorkerCount != len(live) or len(live) > 2:
                return False
            for w in live:
                if w not in team._idle or w._pending:
                    return False
            if world.coord._quit.isSet or world.coord._pending:
                return False
        return True
    except (_TaskAbort, _TaskError):
        return False    # a task's failure escaped the Team (out of a worker's perform())
    finally:
        _pool.LockWorker, _pool.ThreadWorker, _pool.err = saved


def history(lim0: int, n: int, o0: int, o1: int, o2: int, o3: int, o4: int, o5: int, o6: int, o7: int,
            p0: int, p1: int, p2: int, p3: int, p4: int, p5: int, p6: int, p7: int) -> bool:
    """
    pre: 1 <= lim0 <= 2 and 0 <= n <= B['hist']
    pre: 0 <= o0 <= 7 and 0 <= o1 <= 7 and 0 <= o2 <= 7 and 0 <= o3 <= 7
    pre: 0 <= o4 <= 7 and 0 <= o5 <= 7 and 0 <= o6 <= 7 and 0 <= o7 <= 7
    pre: 0 <= p0 <= 2 and 0 <= p1 <= 2 and 0 <= p2 <= 2 and 0 <= p3 <= 2
    pre: 0 <= p4 <= 2 and 0 <= p5 <= 2 and 0 <= p6 <= 2 and 0 <= p7 <= 2
    post: _
    """
    return _run(lim0, _ops(n, [o0, o1, o2, o3, o4, o5, o6, o7]), [p0, p1, p2, p3, p4, p5, p6, p7])


def eager(lim0: int, n: int, o0: int, o1: int, o2: int, o3: int, o4: int, o5: int, o6: int, o7: int,
          p0: int, p1: int, p2: int, p3: int, p4: int, p5: int, p6: int, p7: int) -> bool:
    """
    pre: 1 <= lim0 <= 2 and 0 <= n <= B['eager']
    pre: 0 <= o0 <= 7 and 0 <= o1 <= 7 and 0 <= o2 <= 7 and 0 <= o3 <= 7
    pre: 0 <= o4 <= 7 and 0 <= o5 <= 7 and 0 <= o6 <= 7 and 0 <= o7 <= 7
    pre: 0 <= p0 <= 2 and 0 <= p1 <= 2 and 0 <= p2 <= 2 and 0 <= p3 <= 2
    pre: 0 <= p4 <= 2 and 0 <= p5 <= 2 and 0 <= p6 <= 2 and 0 <= p7 <= 2
    post: _
    """
    return _run(lim0, _ops(n, [o0, o1, o2, o3, o4, o5, o6, o7]), [p0, p1, p2, p3, p4, p5, p6, p7],
                eager=True)


def sched(lim0: int, n: int, o0: int, o1: int, o2: int, o3: int, o4: int, o5: int, o6: int, o7: int,
          rk: int, rb: bool) -> bool:
    """
    pre: 1 <= lim0 <= 2 and 0 <= n <= B['sched'] and -1 <= rk <= 7
    pre: 0 <= o0 <= 7 and 0 <= o1 <= 7 and 0 <= o2 <= 7 and 0 <= o3 <= 7
    pre: 0 <= o4 <= 7 and 0 <= o5 <= 7 and 0 <= o6 <= 7 and 0 <= o7 <= 7
    post: _
    """
    return _run(lim0, _ops(n, [o0, o1, o2, o3, o4, o5, o6, o7]), [0] * 8, one_raiser=rk, nosize=True, raiser_base=rb)


def _ops(n, os_):
    for k in range(9):
        if n == k:
            return os_[:k]
    return os_


def _sh(firsts, seconds, trivial):
    out = [(trivial,)]
    for a in firsts:
        for b_ in seconds:
            out.append(("n >= 2 and o0 == %d and o1 == %d" % (a, b_),))
    return out


def _sched_shards():
    out = [("n <= 1 or o0 >= 5 or o0 == 1 or o0 == 2 or o1 == 1 or o1 == 2 or o1 >= 6",)]
    for a in (0, 3, 4):
        for b_ in (0, 3, 4, 5):
            pre = "n >= 2 and o0 == %d and o1 == %d" % (a, b_)
            if (a, b_) in ((0, 0), (0, 4), (0, 5), (4, 0)):     # the big subtrees: split once more
                out.append((pre + " and (n == 2 or o2 == 1 or o2 == 2 or o2 >= 6)",))
                for c in (0, 3, 4, 5):
                    out.append((pre + " and n >= 3 and o2 == %d" % c,))
            else:
                out.append((pre,))
    return out


HARNESSES = [
    # a step event at position 0 (and a worker step at position 1 with a lazy coordinator) is always a
    # no-op: those histories are in the first, trivial shard
    H(history, shards=[("n <= 1 or o0 >= 5",)] + [("n >= 2 and o0 == %d" % a,) for a in range(5)],
      timeout={"quick": 100, "thorough": 1500}),
    H(eager, shards=lambda tier: _sh(range(5), (0, 1, 2, 3, 4, 6), "n <= 1 or o0 >= 5 or o1 == 5 or o1 == 7"),
      timeout={"quick": 100, "thorough": 1500}),
    H(sched, shards=lambda tier: _sched_shards(),
      timeout={"quick": 100, "thorough": 1500}),
]

# concrete scenarios (several after twisted/_threads/test/test_team.py): must hold on the real code
VECTORS = {
    "history": [(1, 6, 0, 0, 5, 5, 6, 3, 0, 0, 0, 1, 0, 0, 0, 0, 0, 0), (2, 5, 1, 5, 0, 0, 3, 0, 0, 0, 2, 1, 0, 0, 0, 0, 0, 0),
                (1, 8, 0, 1, 2, 4, 5, 5, 5, 6, 1, 2, 2, 0, 0, 0, 0, 0), (2, 0, 0, 0, 0, 0, 0, 0, 0, 0, 0, 0, 0, 0, 0, 0, 0, 0)],
    "eager": [(2, 6, 1, 0, 0, 0, 6, 7, 0, 0, 2, 1, 0, 0, 0, 0, 0, 0), (1, 6, 0, 0, 2, 6, 6, 3, 0, 0, 1, 1, 2, 0, 0, 0, 0, 0),
              (1, 4, 4, 2, 0, 6, 0, 0, 0, 0, 0, 1, 0, 0, 0, 0, 0, 0)],
    "sched": [(1, 7, 0, 0, 5, 5, 6, 5, 3, 0, 1, False), (2, 6, 0, 0, 5, 5, 7, 6, 0, 0, -1, False),
              (1, 7, 0, 0, 5, 5, 6, 5, 3, 0, 0, True)],
}
