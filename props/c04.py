"""C04 DeferredList / gatherResults / race: fire once, correctly ordered results, cancellation.

Every harness builds n real input Deferreds, fires the first p entries of a symbolic schedule before
the aggregate is constructed (pre-fired inputs), constructs the real aggregate, then fires the rest
of the schedule with an optional cancel() of the aggregate at a symbolic point.  After every step
the aggregate's observed state is compared with a small reference model written from the
documentation (not from the code).
"""
from twisted.internet.defer import (CancelledError, Deferred, DeferredList, FailureGroup, FirstError,
                                    gatherResults, race)
from twisted.python.failure import Failure

from vlib.api import H, cover

PROPERTY = "C04"
LEVEL = "model_checking"
ENCODED = ["twisted.internet.defer:DeferredList.__init__", "twisted.internet.defer:DeferredList._cbDeferred",
           "twisted.internet.defer:DeferredList.cancel", "twisted.internet.defer:gatherResults",
           "twisted.internet.defer:_parseDeferredListResult", "twisted.internet.defer:race",
           "twisted.internet.defer:Deferred.cancel", "twisted.internet.defer:Deferred._runCallbacks"]
BOUNDS = {"quick": {"n": 3}, "thorough": {"n": 4}}
B = {}
BOUNDS_TEXT = ("1 <= n <= N inputs (N = 3 quick, 4 thorough); schedule = any sequence of distinct input indices "
               "(inputs not in it never fire), each firing a success or a failure; any prefix of the schedule "
               "happens before the aggregate is built (pre-fired inputs); cancel() of the aggregate at any one "
               "point after construction or never; all 8 flag combinations of DeferredList, both of gatherResults")
OUTSIDE = ["lists of more than N inputs (the property text goes to 5 and 'random larger lists')",
           "the empty list", "input cancellers that fire their Deferred (inputs here have a counting no-op "
           "canceller, so a cancelled input fails with CancelledError)",
           "inputs whose result is itself a Deferred; callbacks that raise",
           "input values are the fixed integers 100+index, failures are distinct exception objects"]
ASSUMPTIONS = ["reference models (_MList, _MRace) transcribe the documented behaviour of DeferredList, "
               "gatherResults and race; pre-fired inputs are seen by the aggregate in input order"]
EXPLANATION = ("real DeferredList/gatherResults/race on symbolic firing schedules, pre-fired prefixes, outcomes, "
               "flags and cancellation point, compared step by step with a reference model")


class _Err(Exception):
    def __init__(self, i):
        Exception.__init__(self, i)
        self.i = i


class _CD(Deferred):
    """input Deferred counting cancel() calls and canceller invocations"""

    def __init__(self):
        self.ncancel = 0
        self.ncanceller = 0
        Deferred.__init__(self, canceller=_CD._count)

    def _count(self):
        self.ncanceller += 1

    def cancel(self):
        self.ncancel += 1
        Deferred.cancel(self)


def _tag(f):
    if not isinstance(f, Failure):
        return ("notfailure",)
    if isinstance(f.value, _Err):
        return ("E", f.value.i)
    if isinstance(f.value, CancelledError):
        return ("C",)
    return ("other", type(f.value).__name__)


def _pick(x, hi):
    # one concrete path per value of a symbolic int in 0..hi
    for k in range(hi):
        if x == k:
            return k
    return hi


# ---------------------------------------------------------------------------- reference models

class _MBase:
    def __init__(self, n):
        self.n = n
        self.out = [None] * n         # outcome of input i once it fired: ("ok", v) | ("err", tag)
        self.seen = [False] * n       # the aggregate's callback on input i has run
        self.later = [None] * n       # what a callback added to input i after the aggregate sees
        self.ncancel = [0] * n
        self.ncanceller = [0] * n
        self.agg = None               # None | ("ok", x) | ("err", x)

    def prefire(self, i, ok):
        # input fires while the aggregate does not exist yet
        self.out[i] = ("ok", 100 + i) if ok else ("err", ("E", i))

    def construct(self):
        # the aggregate attaches its callbacks in input order; fired inputs run them at once
        for i in range(self.n):
            if self.out[i] is not None and not self.seen[i]:
                self.seen[i] = True
                self.event(i)

    def fire(self, i, ok):
        self.prefire(i, ok)
        self.seen[i] = True
        self.event(i)

    def cancel_input(self, i):
        # Deferred.cancel() of an input: nothing if it has fired, else canceller + CancelledError
        self.ncancel[i] += 1
        if self.out[i] is None:
            self.ncanceller[i] += 1
            self.out[i] = ("err", ("C",))
            self.seen[i] = True
            self.event(i)


class _MList(_MBase):
    """DeferredList(ds, foc, foe, ce); gather=True models gatherResults(ds, ce)"""

    def __init__(self, n, foc, foe, ce, gather=False):
        _MBase.__init__(self, n)
        self.foc, self.foe, self.ce, self.gather = foc, foe, ce, gather
        if gather:
            self.foc, self.foe = False, True
        self.count = 0

    def event(self, i):
        kind, v = self.out[i]
        self.count += 1
        if self.agg is None:
            if kind == "ok" and self.foc:
                self.agg = ("ok", ("one", v, i))
            elif kind == "err" and self.foe:
                self.agg = ("err", ("first", i, v))
            elif self.count == self.n:
                if self.gather:
                    self.agg = ("ok", ("values", [o[1] for o in self.out]))
                else:
                    self.agg = ("ok", ("list", [(o[0] == "ok", o[1]) for o in self.out]))
        if kind == "err" and self.ce:
            self.later[i] = ("ok", None)
        else:
            self.later[i] = (kind, v)

    def cancel(self):
        # cancelling an unfired aggregate cancels every input, in input order; a fired one: nothing
        if self.agg is None:
            for i in range(self.n):
                self.cancel_input(i)


class _MRace(_MBase):
    def __init__(self, n):
        _MBase.__init__(self, n)
        self.winner = None
        self.nfail = 0

    def event(self, i):
        kind, v = self.out[i]
        self.later[i] = ("ok", None)
        if kind == "ok":
            if self.winner is None:
                self.winner = i
                self.agg = ("ok", (i, v))
                for j in range(self.n):
                    if j != i:
                        self.cancel_input(j)
        else:
            self.nfail += 1
            if self.nfail == self.n and self.agg is None:
                self.agg = ("err", ("group", [o[1] for o in self.out]))

    def cancel(self):
        if self.agg is None:
            for i in range(self.n):
                self.cancel_input(i)
            if self.agg is None:
                self.agg = ("err", ("C",))


# ---------------------------------------------------------------------------- observation

def _norm_agg(kind, r, n, what):
    """normalise the aggregate's result for comparison with the model"""
    if kind == "ok":
        if what == "race":
            if isinstance(r, tuple) and len(r) == 2:
                return ("ok", (r[0], r[1]))
            return ("ok", ("bad",))
        if isinstance(r, tuple) and len(r) == 2:
            return ("ok", ("one", r[0], r[1]))
        if isinstance(r, list):
            if what == "gather":
                return ("ok", ("values", list(r)))
            items = []
            for it in r:
                if not (isinstance(it, tuple) and len(it) == 2 and isinstance(it[0], bool)):
                    return ("ok", ("baditem",))
                items.append((it[0], it[1] if it[0] else _tag(it[1])))
            return ("ok", ("list", items))
        return ("ok", ("bad",))
    v = r.value
    if isinstance(v, FirstError):
        return ("err", ("first", v.index, _tag(v.subFailure)))
    if isinstance(v, FailureGroup):
        return ("err", ("group", [_tag(f) for f in v.failures]))
    return ("err", _tag(r))


def _scenario(n, L, os_, ks, p, c, what, foc=False, foe=False, ce=False):
    # ---- make every symbolic choice concrete, one path per combination (the solver drives the split)
    n = _pick(n, B['n'])
    L = _pick(L, n)
    order = [_pick(os_[j], n - 1) for j in range(L)]
    oks = [True if ks[j] else False for j in range(L)]
    p = _pick(p, L)
    c = -1 if c < 0 else _pick(c, L - p)
    foc = True if foc else False
    foe = True if foe else False
    ce = True if ce else False

    ds = [_CD() for _ in range(n)]
    excs = [_Err(i) for i in range(n)]
    if what == "race":
        m = _MRace(n)
    else:
        m = _MList(n, foc, foe, ce, gather=(what == "gather"))

    def fire(i, ok):
        if ok:
            ds[i].callback(100 + i)
        else:
            ds[i].errback(excs[i])

    # ---- pre-fired inputs: fired before the aggregate exists
    for j in range(p):
        fire(order[j], oks[j])
        m.prefire(order[j], oks[j])

    if what == "race":
        agg = race(ds)
    elif what == "gather":
        agg = gatherResults(ds, consumeErrors=ce)
    else:
        agg = DeferredList(ds, fireOnOneCallback=foc, fireOnOneErrback=foe, consumeErrors=ce)
    aggobs = []
    agg.addCallbacks(lambda r: aggobs.append(_norm_agg("ok", r, n, what)),
                     lambda f: aggobs.append(_norm_agg("err", f, n, what)))
    later = [[] for _ in range(n)]
    for i in range(n):
        ds[i].addCallbacks(lambda r, i=i: later[i].append(("ok", r)),
                           lambda f, i=i: later[i].append(("err", _tag(f))))
    m.construct()

    def agree():
        if aggobs != ([] if m.agg is None else [m.agg]):
            return False
        for i in range(n):
            if later[i] != ([] if m.later[i] is None else [m.later[i]]):
                return False
            if ds[i].ncancel != m.ncancel[i] or ds[i].ncanceller != m.ncanceller[i]:
                return False
        return True

    if not agree():
        return False
    cancelled_at = None
    for step in range(L - p + 1):
        if step == c:
            cancelled_at = step
            agg.cancel()
            m.cancel()
            if not agree():
                return False
        if step < L - p:
            i = order[p + step]
            if m.out[i] is not None:
                continue            # cancelled meanwhile (by race or by the aggregate's cancel)
            fire(i, oks[p + step])
            m.fire(i, oks[p + step])
            if not agree():
                return False
    cover()
    if cancelled_at is not None:
        cover("cancelled")
    # agree() held after every step, including the last one
    for i in range(n):
        ds[i].addErrback(lambda f: None)
    agg.addErrback(lambda f: None)
    return True


# The schedule is given by scalars (symbolic lists are slow to index): L entries o0..o3 (distinct input
# indices) with outcomes k0..k3 (True = success); unused entries are pinned to 0 / False.  The first p
# entries are fired before the aggregate exists and are listed in increasing index order (their mutual
# order cannot be observed by an aggregate that does not exist yet).  c = -1: never cancel, else cancel
# the aggregate after c of the remaining L - p firings.

def dlist(n: int, L: int, o0: int, o1: int, o2: int, o3: int, k0: bool, k1: bool, k2: bool, k3: bool,
          p: int, c: int, foc: bool, foe: bool, ce: bool) -> bool:
    """
    pre: 1 <= n <= B['n'] and 0 <= L <= n and 0 <= p <= L and -1 <= c <= L - p
    pre: (0 <= o0 < n and L > 0) or (o0 == 0 and not k0 and L <= 0)
    pre: (0 <= o1 < n and L > 1) or (o1 == 0 and not k1 and L <= 1)
    pre: (0 <= o2 < n and L > 2) or (o2 == 0 and not k2 and L <= 2)
    pre: (0 <= o3 < n and L > 3) or (o3 == 0 and not k3 and L <= 3)
    pre: L < 2 or o1 != o0
    pre: L < 3 or (o2 != o0 and o2 != o1)
    pre: L < 4 or (o3 != o0 and o3 != o1 and o3 != o2)
    pre: (p < 2 or o0 < o1) and (p < 3 or o1 < o2) and (p < 4 or o2 < o3)
    post: _
    """
    return _scenario(n, L, (o0, o1, o2, o3), (k0, k1, k2, k3), p, c, "dlist", foc, foe, ce)


def gather(n: int, L: int, o0: int, o1: int, o2: int, o3: int, k0: bool, k1: bool, k2: bool, k3: bool,
           p: int, c: int, ce: bool) -> bool:
    """
    pre: 1 <= n <= B['n'] and 0 <= L <= n and 0 <= p <= L and -1 <= c <= L - p
    pre: (0 <= o0 < n and L > 0) or (o0 == 0 and not k0 and L <= 0)
    pre: (0 <= o1 < n and L > 1) or (o1 == 0 and not k1 and L <= 1)
    pre: (0 <= o2 < n and L > 2) or (o2 == 0 and not k2 and L <= 2)
    pre: (0 <= o3 < n and L > 3) or (o3 == 0 and not k3 and L <= 3)
    pre: L < 2 or o1 != o0
    pre: L < 3 or (o2 != o0 and o2 != o1)
    pre: L < 4 or (o3 != o0 and o3 != o1 and o3 != o2)
    pre: (p < 2 or o0 < o1) and (p < 3 or o1 < o2) and (p < 4 or o2 < o3)
    post: _
    """
    return _scenario(n, L, (o0, o1, o2, o3), (k0, k1, k2, k3), p, c, "gather", ce=ce)


def races(n: int, L: int, o0: int, o1: int, o2: int, o3: int, k0: bool, k1: bool, k2: bool, k3: bool,
          p: int, c: int) -> bool:
    """
    pre: 1 <= n <= B['n'] and 0 <= L <= n and 0 <= p <= L and -1 <= c <= L - p
    pre: (0 <= o0 < n and L > 0) or (o0 == 0 and not k0 and L <= 0)
    pre: (0 <= o1 < n and L > 1) or (o1 == 0 and not k1 and L <= 1)
    pre: (0 <= o2 < n and L > 2) or (o2 == 0 and not k2 and L <= 2)
    pre: (0 <= o3 < n and L > 3) or (o3 == 0 and not k3 and L <= 3)
    pre: L < 2 or o1 != o0
    pre: L < 3 or (o2 != o0 and o2 != o1)
    pre: L < 4 or (o3 != o0 and o3 != o1 and o3 != o2)
    pre: (p < 2 or o0 < o1) and (p < 3 or o1 < o2) and (p < 4 or o2 < o3)
    post: _
    """
    return _scenario(n, L, (o0, o1, o2, o3), (k0, k1, k2, k3), p, c, "race")


def _dl_shards(tier):
    out = []
    for foc in (False, True):
        for foe in (False, True):
            for ce in (False, True):
                out.append(("foc == %s" % foc, "foe == %s" % foe, "ce == %s" % ce))
    return out


HARNESSES = [
    H(dlist, shards=_dl_shards, timeout={"quick": 90, "thorough": 1200}, labels=("end", "cancelled")),
    H(gather, shards=lambda tier: [("ce == False",), ("ce == True",)], timeout={"quick": 90, "thorough": 1200},
      labels=("end", "cancelled")),
    H(races, shards=lambda tier: [("p == 0",), ("p > 0",)], timeout={"quick": 90, "thorough": 1200},
      labels=("end", "cancelled")),
]


def _v(n, order, oks, p, c, *flags):
    o = list(order) + [0] * (4 - len(order))
    k = [bool(x) for x in oks] + [False] * (4 - len(oks))
    return (n, len(order)) + tuple(o) + tuple(k) + (p, c) + tuple(flags)


VECTORS = {
    "dlist": [_v(3, [2, 0, 1], [1, 0, 1], 1, -1, False, False, False),
              _v(3, [1, 2, 0], [0, 1, 1], 0, 1, True, False, True),
              _v(2, [1], [0], 1, 0, False, True, True),
              _v(3, [0, 1], [1, 1], 2, 0, False, False, False)],
    "gather": [_v(3, [2, 1, 0], [1, 1, 1], 1, -1, False), _v(3, [1, 0], [1, 0], 0, 2, True),
               _v(2, [], [], 0, 0, False)],
    "races": [_v(3, [1, 0, 2], [0, 1, 1], 0, -1), _v(3, [2, 1, 0], [0, 0, 0], 1, -1), _v(3, [1], [0], 1, 0),
              _v(2, [1], [1], 1, -1)],
}
