"""C24 HTTP client requests serialise to exactly the intended message.

Engine E2.  `Request` (writeTo / _writeHeaders / _writeToBodyProducerContentLength /
_writeToBodyProducerChunked / _writeToEmptyBodyContentLength), `_ensureValidMethod`, `_ensureValidURI`
with its regular expression `_VALID_URI`, `ChunkedEncoder` and `LengthEnforcingConsumer` of
twisted.web._newclient are recompiled from /repo's source onto LBytes (`re` -> the text-regex shim: the
REAL pattern is executed, symbolically, by CrossHair's regex model); `Headers` and `_istoken` are the
lifted ones of C20.  Method, request target, a header value and the body pieces are symbolic text; the
body producer is a scripted fake (synchronous, or finishing after writeTo returned); the transport
records.  The emitted text is cut by the reference tokenizer of props/c20.py (CRLF, lone CR and lone LF
all end a line) and compared with the request that was asked for.
"""
import re as _re

from twisted.internet.defer import Deferred, succeed
from twisted.web import _newclient as _real
from twisted.web.iweb import UNKNOWN_LENGTH

from props import c20 as K
from vlib import api, lbytes, lift
from vlib.api import H, cover
from vlib.lift import b, t

PROPERTY = "C24"
LEVEL = "model_checking"
ENCODED = ["twisted.web._newclient:Request.__init__", "twisted.web._newclient:Request.writeTo",
           "twisted.web._newclient:Request._writeHeaders",
           "twisted.web._newclient:Request._writeToBodyProducerContentLength",
           "twisted.web._newclient:Request._writeToBodyProducerChunked",
           "twisted.web._newclient:Request._writeToEmptyBodyContentLength",
           "twisted.web._newclient:_ensureValidMethod", "twisted.web._newclient:_ensureValidURI",
           "twisted.web._newclient:ChunkedEncoder", "twisted.web._newclient:LengthEnforcingConsumer",
           "twisted.web._abnf:_istoken", "twisted.web.http_headers:Headers.addRawHeader",
           "twisted.web.http_headers:Headers.getRawHeaders", "twisted.web.http_headers:Headers.getAllRawHeaders"]
BOUNDS = {"quick": {"m": 3, "m3all": 0, "ml": 2, "u": 3, "hv": 2, "bw": 2, "n": 4},
          "thorough": {"m": 3, "m3all": 1, "ml": 3, "u": 5, "hv": 3, "bw": 3, "n": 6}}
B = {}
BOUNDS_TEXT = ("method of <= m bytes given to the constructor (quick tier: 3-byte methods only with a first byte "
               "in 0x41..0x5d = A-Z[\\]; <= ml bytes when assigned to the attribute afterwards), request target of <= u bytes (both ways, persistent or not, method GET/PUT/POST), both symbolic with 1 "
               "byte each; one header value of <= hv bytes and 0/1/2 Host headers; body: none / declared length "
               "0..n with 2 producer writes of <= bw symbolic bytes each (equal, too short, too long) / unknown "
               "length (chunked) with 2 writes of 0..bw bytes, the first optionally followed by 10 fixed bytes; producer finishing inside startProducing or "
               "after writeTo returned")
OUTSIDE = ["h11 (or any third-party parser) as the oracle: the reference tokenizer is the one in props/c20.py",
           "header NAMES are concrete (Host, X-A); Headers' own name validation is C20",
           "producers that fail (errback) or are cancelled, pause/resume, more than two writes",
           "HTTP11ClientProtocol's state machine around writeTo (C23), Agent's header synthesis (Host etc.)"]
ASSUMPTIONS = ["LBytes reproduces bytes semantics for the operations used (vlib.lbytes.selftest on every run); the "
               "lifted code agrees with the real code on the concrete vectors below",
               "the regular expression of _ensureValidURI is the real pattern, run through CrossHair's symbolic "
               "regex model (re.ASCII text pattern over latin-1 text); a pattern ending in a non-MULTILINE '$' "
               "(not the real one) is run as P\\Z on the subject and on the subject minus a final newline, because "
               "CrossHair 0.0.110 does not model that '$' also matches before a final newline",
               "the fake producer follows IBodyProducer: writes from startProducing (or later), returns a "
               "Deferred that it fires once; the fake transport records write/writeSequence/registerProducer/"
               "unregisterProducer"]
EXPLANATION = ("lifted real client Request/encoders on symbolic method, target, header value and body pieces; "
               "output cut by a lenient reference tokenizer and compared with the request asked for")

LA, LH, Headers = K.LA, K.LH, K.Headers


class _Pattern(lbytes._LPattern):
    """CrossHair 0.0.110 models a non-MULTILINE `$` as "end of string" only, while CPython also lets it
    match just before a final newline (the classic way a target like b'/\\n' slips through a validator).
    The real pattern uses \\Z and needs none of this; so that a tree whose pattern ends in `$` is still
    judged correctly, such a pattern P$ is run as P\\Z on the subject and on the subject minus one final
    newline.  Any other use of `$` is refused rather than mis-modelled."""

    def __init__(self, pat, flags=0):
        lbytes._LPattern.__init__(self, pat, flags)
        txt = pat if isinstance(pat, str) else lbytes._s(pat)
        self.alt = None
        if "$" in txt:
            if (flags & _re.M) or txt.count("$") != 1 or not txt.endswith("$") or txt.endswith("\\$") or "(?m" in txt:
                raise NotImplementedError("'$' other than as the last element of a pattern")
            alt = txt[:-1] + "\\Z"
            self.alt = lbytes._LPattern(alt if isinstance(pat, str) else lbytes.LBytes(alt), flags)

    def match(self, x, *a):
        if self.alt is None:
            return lbytes._LPattern.match(self, x, *a)
        r = self.alt.match(x, *a)
        if r is not None:
            return r
        xs = self._in(x)
        n = len(xs)
        if n > 0 and xs[n - 1] == "\n":
            return self.alt.match(x[:n - 1], *a)
        return None

    def _refuse(self, *a, **k):
        raise NotImplementedError("only match() is modelled for a pattern ending in '$'")

    def search(self, x, *a):
        return self._refuse() if self.alt is not None else lbytes._LPattern.search(self, x, *a)

    def fullmatch(self, x, *a):
        return self._refuse() if self.alt is not None else lbytes._LPattern.fullmatch(self, x, *a)


class l_re24(lbytes.l_re):
    Pattern = _Pattern

    @staticmethod
    def compile(pat, flags=0):
        return _Pattern(pat, flags)

    @staticmethod
    def match(pat, x, flags=0):
        return _Pattern(pat, flags).match(x)


L = lift.lift("twisted.web._newclient",
              names=["Request", "_ensureValidMethod", "_ensureValidURI", "_VALID_URI", "ChunkedEncoder",
                     "LengthEnforcingConsumer"],
              overrides={"_istoken": LA._istoken, "Headers": Headers}, use_re=True, extra_shims={"re": l_re24})

WrongBodyLength = _real.WrongBodyLength
ExcessWrite = _real.ExcessWrite
BadHeaders = _real.BadHeaders
TCHAR = K.TCHAR
chars_of, text_of, eql, all_latin1 = K.chars_of, K.text_of, K.eql, K.all_latin1


class Rec:
    """recording transport"""

    def __init__(self):
        self.w = []
        self.ev = []

    def write(self, data):
        self.w.append(t(data))

    def writeSequence(self, seq):
        for x in seq:
            self.w.append(t(x))

    def registerProducer(self, producer, streaming):
        self.ev.append("reg")

    def unregisterProducer(self):
        self.ev.append("unreg")


class Producer:
    """scripted IBodyProducer: `now` pieces are written inside startProducing; `later` pieces and the
    completion happen when the harness calls finish() (after writeTo has returned)"""

    def __init__(self, length, now, later, deferred):
        self.length = length
        self.now = now
        self.later = later
        self.deferred = deferred
        self.stopped = 0
        self.excess = 0
        self.d = None
        self.consumer = None

    def _write(self, p):
        try:
            self.consumer.write(p)
        except ExcessWrite:
            self.excess += 1

    def startProducing(self, consumer):
        self.consumer = consumer
        for p in self.now:
            self._write(p)
        if self.deferred:
            self.d = Deferred()
            return self.d
        return succeed(None)

    def finish(self):
        for p in self.later:
            self._write(p)
        if self.d is not None:
            self.d.callback(None)

    def stopProducing(self):
        self.stopped += 1

    def pauseProducing(self):
        pass

    def resumeProducing(self):
        pass


def mk_headers(hv, hosts=1):
    K.fresh_name_cache()
    h = Headers()
    for i in range(hosts):
        h.addRawHeader(b("host"), b("example.com"))
    h.addRawHeader(b("x-a"), hv)
    return h


def is_token(cs):
    ok = len(cs) > 0
    for c in cs:
        if not lbytes._char_in(c, TCHAR):
            ok = False
    return ok


def is_target(cs):
    """_ensureValidURI's documented rule: no control characters (0-32, 127), no non-ASCII, not empty"""
    ok = len(cs) > 0
    for c in cs:
        if not (0x21 <= ord(c) <= 0x7E):
            ok = False
    return ok


def split_sp(line):
    parts = []
    cur = []
    for c in line:
        if c == " ":
            parts.append(cur)
            cur = []
        else:
            cur.append(c)
    parts.append(cur)
    return parts


def check_request(tr, mc, uc, exp_headers, body, chunked):
    """the written text is exactly one request: METHOD SP target SP HTTP/1.1 CRLF, the expected header
    lines in order, an empty line, the body (de-chunked when chunked)"""
    tk = K.tokenize(K.flat(tr.w))
    if tk is None:
        return False
    first, hlines, rest = tk
    parts = split_sp(first)
    if len(parts) != 3:
        return False
    if not (eql(mc, parts[0]) and eql(uc, parts[1]) and eql(list("HTTP/1.1"), parts[2])):
        return False
    if len(hlines) != len(exp_headers):
        return False
    for i in range(len(exp_headers)):
        nv = K.split_header(hlines[i])
        if nv is None:
            return False
        if not (eql(list(exp_headers[i][0]), nv[0]) and eql(exp_headers[i][1], nv[1])):
            return False
    if chunked:
        got = K.dechunk(rest)
        if got is None:
            return False
        return eql(body, got)
    return eql(body, rest)


def std_headers(persistent, framing, hv):
    out = []
    if not persistent:
        out.append(("Connection", list("close")))
    if framing is not None:
        out.append(framing)
    out.append(("Host", list("example.com")))
    out.append(("X-A", hv))
    return out


def fire(d, res):
    d.addCallbacks(lambda r: res.append("ok"), lambda f: res.append(f.type.__name__))


def no_body(method, uri, late, persistent):
    """build the request (or assign the attribute late) and write it; returns (raised, transport, result)"""
    tr = Rec()
    res = []
    raised = False
    h = mk_headers(b("v"))
    try:
        if late:
            req = L.Request(b("GET"), b("/"), h, None, persistent)
            req.method = b(method)
            req.uri = b(uri)
        else:
            req = L.Request(b(method), b(uri), h, None, persistent)
        fire(req.writeTo(tr), res)
    except ValueError:
        raised = True
    return raised, tr, res


def judge_no_body(raised, tr, res, mc, uc, persistent):
    if not (is_token(mc) and is_target(uc)):
        # refused before anything is written
        return raised and len(tr.w) == 0 and len(res) == 0
    if raised or not (len(res) == 1 and res[0] == "ok"):
        return False
    framing = None
    if eql(list("PUT"), mc) or eql(list("POST"), mc):
        framing = ("Content-Length", list("0"))
    return check_request(tr, mc, uc, std_headers(persistent, framing, list("v")), [], False)


def req_method(method: str, late: bool) -> bool:
    """
    pre: len(method) <= B['m'] and all_latin1(method)
    pre: not late or len(method) <= B['ml']
    pre: len(method) < 3 or B['m3all'] == 1 or 'A' <= method[0] < '^'
    post: _
    """
    mc = chars_of(method, B['m'])
    raised, tr, res = no_body(text_of(mc), "/x", late, True)
    api.obs((raised, tr.w, res))
    cover()
    return judge_no_body(raised, tr, res, mc, list("/x"), True)


METHODS = ["GET", "PUT", "POST"]


def req_target(uri: str, late: bool, persistent: bool, mi: int) -> bool:
    """
    pre: len(uri) <= B['u'] and all_latin1(uri)
    pre: 0 <= mi < 3
    post: _
    """
    uc = chars_of(uri, B['u'])
    m = METHODS[pick(mi, 2)]
    raised, tr, res = no_body(m, text_of(uc), late, persistent)
    api.obs((raised, tr.w, res))
    cover()
    return judge_no_body(raised, tr, res, list(m), uc, persistent)


def req_both(method: str, uri: str, late: bool) -> bool:
    """
    pre: len(method) <= 1 and len(uri) <= 1 and all_latin1(method + uri)
    post: _
    """
    mc, uc = chars_of(method, 1), chars_of(uri, 1)
    raised, tr, res = no_body(text_of(mc), text_of(uc), late, False)
    api.obs((raised, tr.w, res))
    cover()
    return judge_no_body(raised, tr, res, mc, uc, False)


def req_header(hv: str, hosts: int) -> bool:
    """
    pre: len(hv) <= B['hv'] and all_latin1(hv)
    pre: 0 <= hosts <= 2
    post: _
    """
    hc = chars_of(hv, B['hv'])
    nh = 1
    for k in range(3):
        if hosts == k:
            nh = k
    tr = Rec()
    res = []
    bad = False
    req = L.Request(b("POST"), b("/p?q=1"), mk_headers(b(text_of(hc)), nh), None, False)
    try:
        fire(req.writeTo(tr), res)
    except BadHeaders:
        bad = True
    api.obs((bad, tr.w, res))
    cover()
    if nh != 1:
        # exactly one Host header is required: refused before anything is written
        return bad and len(tr.w) == 0
    if bad or not (len(res) == 1 and res[0] == "ok"):
        return False
    exp = std_headers(False, ("Content-Length", list("0")), K.ref_sanitize(hc))
    return check_request(tr, list("POST"), list("/p?q=1"), exp, [], False)


def pick(n, hi):
    for k in range(hi + 1):
        if n == k:
            return k
    return hi


def body_known(w1: str, w2: str, n: int, deferred: bool, late2: bool) -> bool:
    """
    pre: len(w1) <= B['bw'] and len(w2) <= B['bw'] and all_latin1(w1 + w2)
    pre: 0 <= n <= B['n']
    pre: deferred or not late2
    post: _
    """
    c1, c2 = chars_of(w1, B['bw']), chars_of(w2, B['bw'])
    n = pick(n, B['n'])
    p1, p2 = b(text_of(c1)), b(text_of(c2))
    prod = Producer(n, [p1] if late2 else [p1, p2], [p2] if late2 else [], deferred)
    tr = Rec()
    res = []
    req = L.Request(b("PUT"), b("/up"), mk_headers(b("v")), prod, True)
    fire(req.writeTo(tr), res)
    prod.finish()
    api.obs((tr.w, tr.ev, res, prod.stopped, prod.excess))
    cover()
    # reference length enforcement: whole pieces are forwarded while they fit; the first piece that does
    # not fit closes the consumer
    remaining = n
    fwd = []
    closed = False
    excess = 0
    for c in (c1, c2):
        if closed:
            excess += 1
        elif len(c) <= remaining:
            remaining -= len(c)
            fwd = fwd + c
        else:
            closed = True
    good = (not closed) and remaining == 0
    if len(res) != 1:
        return False
    if good != (res[0] == "ok"):
        return False
    if not good and res[0] != "WrongBodyLength":
        return False
    if not (len(tr.ev) == 2 and tr.ev[0] == "reg" and tr.ev[1] == "unreg"):
        return False
    if closed != (prod.stopped > 0) or prod.excess != excess:
        return False
    # never more body bytes than Content-Length announces; exactly the producer's bytes when it kept its word
    if len(fwd) > n:
        return False
    exp = std_headers(True, ("Content-Length", list("%d" % n)), list("v"))
    return check_request(tr, list("PUT"), list("/up"), exp, fwd, False)


PAD = "0123456789"


def body_chunked(w1: str, w2: str, deferred: bool, late2: bool, pad: bool) -> bool:
    """
    pre: len(w1) <= B['bw'] and len(w2) <= B['bw'] and all_latin1(w1 + w2)
    pre: deferred or not late2
    post: _
    """
    c1, c2 = chars_of(w1, B['bw']), chars_of(w2, B['bw'])
    if pad:
        # a first piece of 10..12 bytes: the chunk size needs a hexadecimal letter
        c1 = c1 + list(PAD)
    p1, p2 = b(text_of(c1)), b(text_of(c2))
    prod = Producer(UNKNOWN_LENGTH, [p1] if late2 else [p1, p2], [p2] if late2 else [], deferred)
    tr = Rec()
    res = []
    req = L.Request(b("POST"), b("/up"), mk_headers(b("v")), prod, False)
    fire(req.writeTo(tr), res)
    mid = list(tr.w)
    prod.finish()
    api.obs((tr.w, tr.ev, res, prod.stopped, prod.excess))
    cover()
    if not (len(res) == 1 and res[0] == "ok" and prod.stopped == 0 and prod.excess == 0):
        return False
    if not (len(tr.ev) == 2 and tr.ev[0] == "reg" and tr.ev[1] == "unreg"):
        return False
    if deferred:
        # the terminating chunk is not written before the producer says it is done
        tk = K.tokenize(K.flat(mid))
        if tk is None or K.dechunk(tk[2]) is not None:
            return False
    exp = std_headers(False, ("Transfer-Encoding", list("chunked")), list("v"))
    return check_request(tr, list("POST"), list("/up"), exp, c1 + c2, True)


# the first character of a 3-byte method by token-character class (the validity check forks ~19 ways
# per character): one shard per one or two classes
_FIRST = ["method[0] < '*'", "'*' <= method[0] < '0'", "'0' <= method[0] < 'A'", "'A' <= method[0] < '^'",
          "'^' <= method[0] < '|'", "'|' <= method[0]"]

HARNESSES = [
    H(req_method, shards=lambda tier: [("len(method) == %d" % n, "late == %s" % x)
                                       for n in range(3) for x in (False, True)] +
                                      [("len(method) == 3", "late == %s" % x, rng, "method[1] %s '@'" % op)
                                       for x in (False, True) if not x or BOUNDS[tier]["ml"] >= 3
                                       for rng in (_FIRST if BOUNDS[tier]["m3all"] else _FIRST[3:4])
                                       for op in ("<", ">=")],
      timeout={"quick": 90, "thorough": 1500}),
    H(req_target, shards=lambda tier: [("len(uri) == %d" % n, "late == %s" % x)
                                       for n in range(BOUNDS[tier]["u"] + 1) for x in (False, True)],
      timeout={"quick": 60, "thorough": 900}),
    H(req_both, timeout={"quick": 60, "thorough": 300}),
    H(req_header, shards=lambda tier: [("len(hv) == %d" % n,) for n in range(BOUNDS[tier]["hv"] + 1)],
      timeout={"quick": 60, "thorough": 600}),
    H(body_known, shards=lambda tier: [("len(w1) == %d" % n,) for n in range(BOUNDS[tier]["bw"] + 1)],
      timeout={"quick": 60, "thorough": 900}),
    H(body_chunked, timeout={"quick": 60, "thorough": 600}),
]

# several of these are the requests of twisted/web/test/test_newclient.py RequestTests (sendSimplestRequest,
# sendRequestBodyWithLength, sendChunkedRequestBody, sendRequestBodyWithTooFewBytes / TooManyBytes)
VECTORS = {
    "req_method": [("GET", False), ("PUT", False), ("G T", False), ("GE\n", False), ("", False), ("a\r", True), ("ab", True),
                   ("\xe9", False), ("(", True), ("~!", True), ("G\n", False), ("\x7f", False)],
    "req_target": [("/", False, False, 0), ("/a", True, True, 1), ("/ b", False, True, 2), ("", True, False, 0),
                   ("/\n", False, False, 1), ("\x7f", True, True, 2), ("/\xe9", False, True, 0), ("*", False, False, 2),
                   ("/\x00", True, False, 1), ("\r\n", False, True, 0)],
    "req_both": [("G", "/", False), (" ", "/", True), ("G", " ", False), ("", "", True), ("\n", "\r", False)],
    "req_header": [("v", 1), ("\r\n", 1), ("a\n", 1), ("\x00\xff", 1), ("v", 0), ("v", 2), ("", 1)],
    "body_known": [("ab", "c", 3, False, False), ("ab", "c", 3, True, True), ("ab", "c", 4, False, False),
                   ("ab", "c", 2, True, False), ("ab", "cd", 1, True, True), ("", "", 0, False, False),
                   ("\r\n", "\x00", 3, True, True), ("a", "bc", 2, False, False), ("", "x", 0, True, True)],
    "body_chunked": [("", "x", False, False, False), ("a", "", True, True, False), ("", "", True, False, False), ("ab", "c", False, False, True), ("ab", "c", True, True, True), ("\r\n", "0", True, False, False), ("\xff", "\x00", True, True, True)],
}


def selftest():
    n = K.selftest()
    alpha = ["", "/", "a", " ", "\n", "\r", "\x00", "\x7f", "\x80", "\xff", "~", "!", "\x20", "\x21", "\x7e", "$"]
    for p in ("\\A[\\x21-\\x7e]+\\Z", "\\A[\\x21-\\x7e]+$", "[\\x21-\\x7e\\n]+$", "^a*$"):
        rp = _re.compile(p.encode("latin-1"))
        lp = _Pattern(lbytes.LBytes(p))
        for x in [a + c + d for a in alpha for c in alpha for d in ("", "\n", "/")]:
            assert (rp.match(x.encode("latin-1")) is None) == (lp.match(lbytes.LBytes(x)) is None), (p, x)
            n += 1
    return n
