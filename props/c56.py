"""C56 flattened and JSON-serialized log events format like the original: for a format string that
formats on the original event, formatEvent(flattenEvent'ed copy) and
formatEvent(eventFromJSON(eventAsJSON(copy))) give the same text; extractField gives the field.

Engine E1 (native symbolic `str`): the replacement fields of the format string are SYMBOLIC.  The C
parsers behind string.Formatter are the validated pure-Python ports of props/c55.py (see there:
selftest against `_string`, CrossHair builtin fixes); json.dumps/json.loads run as CrossHair's own
pure-Python json (lifted from CPython's Lib/json) under the solver and as the real C json in replay.
The real flattenEvent / KeyFlattener / flatFormat / extractField / eventAsJSON / eventFromJSON /
formatEvent / formatWithCall run on the symbolic strings; values come from a solver-chosen menu of
deterministic values.
"""
from twisted.logger import _flatten as FL
from twisted.logger import _format as F
from twisted.logger import _json as J
from twisted.python.failure import Failure

from vlib import api
from vlib.api import H, cover

from props import c55 as _c55

PROPERTY = "C56"
LEVEL = "model_checking"
ENCODED = ["twisted.logger._flatten:flattenEvent", "twisted.logger._flatten:flatFormat",
           "twisted.logger._flatten:extractField", "twisted.logger._flatten:KeyFlattener",
           "twisted.logger._json:eventAsJSON", "twisted.logger._json:eventFromJSON",
           "twisted.logger._json:objectSaveHook", "twisted.logger._json:objectLoadHook",
           "twisted.logger._json:failureAsJSON", "twisted.logger._json:failureFromJSON",
           "twisted.logger._format:formatEvent", "twisted.logger._format:_formatEvent",
           "twisted.logger._format:formatWithCall", "twisted.logger._format:keycall",
           "twisted.logger._format:PotentialCallWrapper", "twisted.logger._format:CallMapping"]
BOUNDS = {"quick": {"m": 2, "k": 2}, "thorough": {"m": 3, "k": 3}}
B = {}

_in_alpha = _c55._in_alpha
_event = _c55._event
_pick = _c55._pick


class Ret:
    """callable with a deterministic result and repr"""

    def __call__(self):
        return "called"

    def __repr__(self):
        return "<Ret>"


class RetObj:
    def __call__(self):
        return Obj()

    def __repr__(self):
        return "<RetObj>"


class Obj:
    def __init__(self):
        self.a = 3
        self.b = "t"
        self.r = Ret()
        self.s = [1, "two"]

    def __repr__(self):
        return "<Obj>"

    def __str__(self):
        return "Obj-as-str"


NVAL = 10


def _value(k):
    if k == 0:
        return 7
    if k == 1:
        return 'q"\\é\n'
    if k == 2:
        return [5, "y"]
    if k == 3:
        return {"a": 1, "b": [2], "0": "k", "r": Ret(), "s": None}
    if k == 4:
        return Obj()
    if k == 5:
        return Ret()
    if k == 6:
        return RetObj()
    if k == 7:
        return b"\xffab"
    if k == 8:
        return None
    return 2.5


def _failure():
    try:
        raise ValueError("boom é")
    except ValueError:
        return Failure()


def _load(text):
    """eventFromJSON on the serialized text.  Under the solver the text is made concrete first (its
    symbolic characters are already pinned by the path: every character of a replacement field went
    into a flattening key) and the real C decoder runs outside the tracer: decoding a ~150 character
    symbolic text through the pure-Python scanner costs ~20 CPU s per call"""
    if api.MODE == "sym" and _c55._tracing_now():
        from crosshair.core import deep_realize
        from crosshair.tracers import NoTracing
        with NoTracing():
            text = deep_realize(text)
            return J.eventFromJSON(text)
    return J.eventFromJSON(text)


def _same(x, y):
    # equality decided both ways round (guide pitfall 13); success is never an inequality
    return (x == y) and (y == x)


def _check(fmt, va, vb, with_failure, field=None):
    """the property for one event; returns None when the format does not format on the original
    event (outside the claim), else True / False"""
    def build():
        ev = {"log_format": fmt, "a": _value(va), "b": _value(vb)}
        if with_failure:
            ev["log_failure"] = fail
        return _event(ev)
    fail = _failure() if with_failure else None
    original = build()
    try:
        text = F.formatWithCall(fmt, original)
    except Exception:  # noqa
        return None
    if not isinstance(text, str):
        return False
    cover("formats")
    try:
        return _after(fmt, text, original, build, with_failure, field)
    except Exception:  # noqa  flattening / serializing / loading / re-formatting must not raise here
        _c55._cf_check()
        return False


def _after(fmt, text, original, build, with_failure, field):
    if not _same(text, F.formatEvent(original)):
        return False
    # --- flattened copy
    flat = build()
    FL.flattenEvent(flat)
    if not _same(text, F.formatEvent(flat)):
        return False
    # flattening twice changes nothing
    FL.flattenEvent(flat)
    if not _same(text, F.formatEvent(flat)):
        return False
    # --- JSON round trip (eventAsJSON flattens by itself)
    loaded = _load(J.eventAsJSON(build()))
    if not _same(text, F.formatEvent(loaded)):
        return False
    # ... and of the already flattened copy
    loaded2 = _load(J.eventAsJSON(flat))
    if not _same(text, F.formatEvent(loaded2)):
        return False
    if with_failure:
        # a Failure in the event comes back as a Failure of the same exception type with its frames
        # (the exception VALUE is not JSON: documented loss, so the traceback's last line is outside)
        f0, f1 = original["log_failure"], loaded.get("log_failure")
        if not isinstance(f1, Failure) or f1.type.__name__ != f0.type.__name__:
            return False
        if [list(fr[:3]) for fr in f1.frames] != [list(fr[:3]) for fr in f0.frames]:
            return False
        if not isinstance(F.eventAsText(loaded, includeTimestamp=False, includeSystem=False), str):
            return False
    if field is not None:
        # extractField: with a conversion the text of the field, without one the object itself
        got = FL.extractField(field, build())
        convs = [c for (_l, _n, _s, c) in F.aFormatter.parse("{" + field + "}")]
        if convs[0] is None:
            want = F.aFormatter.get_field(field, (), F.CallMapping(original))[0]
            want = getattr(want, "_wrapped", want)
            if type(got) is not type(want) or not _same(repr(got), repr(want)):
                return False
        else:
            if not _same(got, text[1:-1]):
                return False
            if not _same(FL.extractField(field, loaded), text[1:-1]):
                return False
    return True


def single(body: str, va: int, fl: bool) -> bool:
    """
    pre: 0 <= va < NVAL
    pre: len(body) <= B['m']
    pre: _in_alpha(body)
    post: _
    """
    # one replacement field 'a' + symbolic rest (lookups, call syntax, conversion, spec)
    r = _check("<{a" + body + "}>", va, 0, fl, field="a" + body)
    if r is None:
        return True
    cover()
    return r


def free_field(body: str, va: int) -> bool:
    """
    pre: 0 <= va < NVAL
    pre: len(body) <= B['m'] + 1
    pre: _in_alpha(body)
    post: _
    """
    # one replacement field with entirely symbolic content
    r = _check("{" + body + "}", va, 4, False)
    if r is None:
        return True
    cover()
    return r


def double(c1: str, c2: str, va: int, second: int) -> bool:
    """
    pre: 0 <= va < NVAL and 0 <= second <= 1
    pre: len(c1) <= B['k'] and len(c2) <= B['k']
    pre: _in_alpha(c1) and _in_alpha(c2)
    post: _
    """
    # two fields: the same name twice (duplicate keys, same or different conversion / spec) or a and b
    name2 = "a" if second == 0 else "b"
    r = _check("{a" + c1 + "} and {" + name2 + c2 + "}", va, 1, False)
    if r is None:
        return True
    cover()
    return r


def _single_shards(tier):
    m = BOUNDS[tier]["m"]
    out = [("len(body) <= %d" % (m - 1),)]
    out += [("len(body) == %d" % m, "va == %d" % a) for a in range(NVAL)]
    return out


def _free_shards(tier):
    m = BOUNDS[tier]["m"] + 1
    out = [("len(body) <= %d" % (m - 1),)]
    out += [("len(body) == %d" % m, "va == %d" % a) for a in range(NVAL)]
    return out


def _double_shards(tier):
    k = BOUNDS[tier]["k"]
    return [("len(c1) == %d" % i, "len(c2) == %d" % j, "second == %d" % s)
            for i in range(k + 1) for j in range(k + 1) for s in (0, 1)]


HARNESSES = [
    H(single, shards=_single_shards, timeout={"quick": 90, "thorough": 1200}, labels=("end", "formats")),
    H(free_field, shards=_free_shards, timeout={"quick": 90, "thorough": 1200}),
    H(double, shards=_double_shards, timeout={"quick": 90, "thorough": 1200}),
]

VECTORS = {
    "single": [("", 0, False), ("!r", 1, True), (".r()", 4, False), ("[0]", 2, False), ("()", 5, False),
               ("[b][0]", 3, False), (".s[1]!r", 4, True), ("!s", 7, False)],
    "free_field": [("a", 9), ("b.a", 0), ("b.r()!r", 0), ("a[a]", 3)],
    "double": [("", "", 0, 0), ("!r", "!s", 1, 0), ("!r", "!r", 1, 0), ("", "!r", 4, 1), ("()", "()", 5, 0)],
}

BOUNDS_TEXT = "TODO"
OUTSIDE = []
ASSUMPTIONS = []
EXPLANATION = "TODO"


def selftest():
    return _c55.selftest()
