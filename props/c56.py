"""C56 flattened and JSON-serialized log events format like the original: for a format string that
formats on the original event, formatEvent(flattenEvent'ed copy) and
formatEvent(eventFromJSON(eventAsJSON(copy))) give the same text; extractField gives the field.

Engine E1 (native symbolic `str`): the replacement fields of the format string are SYMBOLIC.  The C
parsers behind string.Formatter are the validated pure-Python ports of props/c55.py (see there:
selftest against `_string`, CrossHair builtin fixes); json.dumps/json.loads run as CrossHair's own
pure-Python json (lifted from CPython's Lib/json) under the solver and as the real C json in replay.
The real flattenEvent / KeyFlattener / flatFormat / extractField / eventAsJSON / eventFromJSON /
formatEvent / formatWithCall run on the symbolic strings; values come from a solver-chosen menu of
deterministic values.
"""
from twisted.logger import _flatten as FL
from twisted.logger import _format as F
from twisted.logger import _json as J
from twisted.logger import LogLevel
from twisted.python.failure import Failure

from vlib import api
from vlib.api import H, cover

from props import c55 as _c55

PROPERTY = "C56"
LEVEL = "model_checking"
ENCODED = ["twisted.logger._flatten:flattenEvent", "twisted.logger._flatten:flatFormat",
           "twisted.logger._flatten:extractField", "twisted.logger._flatten:KeyFlattener",
           "twisted.logger._json:eventAsJSON", "twisted.logger._json:eventFromJSON",
           "twisted.logger._json:objectSaveHook", "twisted.logger._json:objectLoadHook",
           "twisted.logger._json:failureAsJSON", "twisted.logger._json:failureFromJSON",
           "twisted.logger._format:formatEvent", "twisted.logger._format:_formatEvent",
           "twisted.logger._format:formatWithCall", "twisted.logger._format:keycall",
           "twisted.logger._format:PotentialCallWrapper", "twisted.logger._format:CallMapping"]
BOUNDS = {"quick": {"m": 2, "k": 2, "dc": 1, "cc": 3}, "thorough": {"m": 3, "k": 3, "dc": 2, "cc": 7}}
B = {}

_in_alpha = _c55._in_alpha
_event = _c55._event
_pick = _c55._pick


class Ret:
    """callable with a deterministic result and repr"""

    def __call__(self):
        return "called"

    def __repr__(self):
        return "<Ret>"


class RetObj:
    def __call__(self):
        return Obj()

    def __repr__(self):
        return "<RetObj>"


class Obj:
    def __init__(self):
        self.a = 3
        self.b = "t"
        self.r = Ret()
        self.s = [1, "two"]

    def __repr__(self):
        return "<Obj>"

    def __str__(self):
        return "Obj-as-str"


class Counter:
    """callable whose result changes with every call (deterministic per event: every event is built
    with a fresh one).  `{a()} {a()}` is "1 2"; flattening must keep the two results apart"""

    def __init__(self):
        self.n = 0

    def __call__(self):
        self.n += 1
        return self.n

    def __repr__(self):
        return "<Counter>"


class FmtDiff:
    """deterministic, but format(x, "") differs from str(x)"""

    def __str__(self):
        return "S"

    def __format__(self, spec):
        return format("F", spec)

    def __repr__(self):
        return "<FmtDiff>"


class Lay:
    """value of key b in the nested-spec cases: usable as a width in every spelling -
    {b} -> "7", {b()} -> 9, {b.a} -> 8, {b.r()} -> 6"""

    def __init__(self):
        self.a = 8
        self.r = lambda: 6

    def __call__(self):
        return 9

    def __str__(self):
        return "7"

    def __repr__(self):
        return "<Lay>"


NVAL = 12      # values of key a; _value(12) is the Lay used for key b


def _value(k):
    if k == 0:
        return 7
    if k == 1:
        return 'q"\\é\n'
    if k == 2:
        return [5, "y"]
    if k == 3:
        return {"a": 1, "b": [2], "0": "k", "r": Ret(), "s": None}
    if k == 4:
        return Obj()
    if k == 5:
        return Ret()
    if k == 6:
        return RetObj()
    if k == 7:
        return b"\xffab"
    if k == 8:
        return None
    if k == 9:
        return 2.5
    if k == 10:
        return Counter()
    if k == 11:
        return FmtDiff()
    return Lay()


def _failure():
    try:
        raise ValueError("boom é")
    except ValueError:
        return Failure()


def _conc(x):
    """plain-Python copy of an event (dicts, lists, symbolic strs -> str); other objects as they are.
    Under the solver the symbolic characters are already pinned when this is called: every character
    of a replacement field went into a flattening key (hashed by KeyFlattener), so this adds no paths
    beyond those the real code made; were a character still free, the remaining values are explored
    as further paths (CrossHair realisation is exhaustive)."""
    if api.MODE != "sym" or not _c55._tracing_now():
        return x
    from crosshair.core import realize
    from crosshair.libimpl.builtinslib import AnySymbolicStr
    from crosshair.tracers import NoTracing

    def go(v):
        if isinstance(v, AnySymbolicStr):
            return realize(v)
        if isinstance(v, dict):
            return {go(k): go(w) for k, w in dict.items(v)}
        if type(v) is list:
            return [go(w) for w in v]
        return v
    with NoTracing():
        return go(x)


def _json_roundtrip(event):
    """eventFromJSON(eventAsJSON(event)) on a concrete copy with the real (C) json module, outside
    the tracer (CrossHair's pure-Python json costs ~0.5 s per dump and ~20 s per load of a text with
    symbolic characters)"""
    event = _conc(event)
    if api.MODE == "sym" and _c55._tracing_now():
        from crosshair.tracers import NoTracing
        with NoTracing():
            return J.eventFromJSON(J.eventAsJSON(event))
    return J.eventFromJSON(J.eventAsJSON(event))


def _same(x, y):
    # equality decided both ways round (guide pitfall 13); success is never an inequality
    return (x == y) and (y == x)


def _check(fmt, va, vb, with_failure, field=None):
    """the property for one event; returns None when the format does not format on the original
    event (outside the claim), else True / False"""
    def build():
        ev = {"log_format": fmt, "a": _value(va), "b": _value(vb)}
        if with_failure:
            ev["log_failure"] = fail
            ev["log_level"] = LogLevel.warn
        return _event(ev)
    fail = _failure() if with_failure else None
    original = build()
    try:
        text = F.formatWithCall(fmt, build())
    except Exception:  # noqa
        return None
    if not isinstance(text, str):
        return False
    cover("formats")
    try:
        return _after(fmt, text, original, build, with_failure, field)
    except Exception:  # noqa  flattening / serializing / loading / re-formatting must not raise here
        _c55._cf_check()
        return False


def _after(fmt, text, original, build, with_failure, field):
    if not _same(text, F.formatEvent(original)):
        return False
    # --- flattened copy
    flat = build()
    FL.flattenEvent(flat)
    if not _same(text, F.formatEvent(flat)):
        return False
    # flattening twice changes nothing
    FL.flattenEvent(flat)
    if not _same(text, F.formatEvent(flat)):
        return False
    # --- JSON round trip (eventAsJSON flattens by itself)
    loaded = _json_roundtrip(build())
    if not _same(text, F.formatEvent(loaded)):
        return False
    # ... and of the already flattened copy
    loaded2 = _json_roundtrip(flat)
    if not _same(text, F.formatEvent(loaded2)):
        return False
    if with_failure:
        # a Failure in the event comes back as a Failure of the same exception type with its frames
        # (the exception VALUE is not JSON: documented loss, so the traceback's last line is outside)
        f0, f1 = original["log_failure"], loaded.get("log_failure")
        if not isinstance(f1, Failure) or f1.type.__name__ != f0.type.__name__:
            return False
        if loaded.get("log_level") is not LogLevel.warn:
            return False
        if [list(fr[:3]) for fr in f1.frames] != [list(fr[:3]) for fr in f0.frames]:
            return False
        if not isinstance(F.eventAsText(loaded, includeTimestamp=False, includeSystem=False), str):
            return False
    if field is not None:
        # extractField: with a conversion the text of the field, without one the object itself
        parsed = list(F.aFormatter.parse("{" + field + "}"))
        if len(parsed) == 1:       # (the symbolic part may close the field early: then not one field)
            _lit, name, _spec, conv = parsed[0]
            got = FL.extractField(field, build())
            if conv is None:
                want = F.aFormatter.get_field(name, (), F.CallMapping(build()))[0]
                want = getattr(want, "_wrapped", want)
                if type(got) is not type(want) or not _same(repr(got), repr(want)):
                    return False
            else:
                if not _same(got, text[1:-1]):
                    return False
                if not _same(FL.extractField(field, loaded), text[1:-1]):
                    return False
            cover("extract")
    return True


def single(body: str, va: int, fl: bool) -> bool:
    """
    pre: 0 <= va < NVAL
    pre: len(body) <= B['m']
    pre: _in_alpha(body)
    post: _
    """
    # one replacement field 'a' + symbolic rest (lookups, call syntax, conversion, spec)
    r = _check("<{a" + body + "}>", va, 12, fl, field="a" + body)
    if r is None:
        return True
    cover()
    return r


def free_field(body: str, va: int) -> bool:
    """
    pre: 0 <= va < NVAL
    pre: len(body) <= B['m']
    pre: _in_alpha(body)
    post: _
    """
    # one replacement field with entirely symbolic content
    r = _check("{" + body + "}", va, 4, False)
    if r is None:
        return True
    cover()
    return r


# lookups that exist on each menu value (and two that do not), as concrete text: the solver picks one
CHAINS = (
    ("", ".real", ".zz"),                                              # 0 int
    ("", "[0]"),                                                       # 1 str
    ("", "[0]", "[1]", "[9]"),                                         # 2 list
    ("", "[a]", "[b][0]", "[r]()", "[b]", "[r]", "[s]", "[0]"),        # 3 dict
    ("", ".a", ".r()", ".s[1]", ".b", ".r", ".s", ".zz"),              # 4 Obj
    ("", "()"),                                                        # 5 Ret
    ("", "()", "().a", "().r()", "().s[0]", "().r"),                   # 6 RetObj
    ("", "[0]"),                                                       # 7 bytes
    ("",),                                                             # 8 None
    ("", ".real"),                                                     # 9 float
    ("()", ""),                                                        # 10 Counter
    ("",),                                                             # 11 FmtDiff
)


def chain(va: int, ci: int, tail: str) -> bool:
    """
    pre: 0 <= va < NVAL and 0 <= ci < len(CHAINS[va]) and ci <= B['cc']
    pre: len(tail) <= B['k']
    pre: _in_alpha(tail)
    post: _
    """
    # 'a' + a lookup chain that exists on the value (attribute / index / call syntax in any position)
    # + symbolic tail (conversion and / or format spec - or anything else)
    field = "a" + _pick(ci, CHAINS[va]) + tail
    r = _check("<{" + field + "}>", va, 12, False, field=field)
    if r is None:
        return True
    cover()
    return r


# conversion / spec suffixes; the nested replacement fields in a spec use plain, call and method-call
# syntax (key b is a Lay)
TAILS = ("", "!r", "!s", "!a", ":", ":>{b}", "!r:<9", "()", ":{b()}", "!s:>{b.r()}")


def double(t1: int, t2: int, va: int, second: int, ci: int) -> bool:
    """
    pre: 0 <= va < NVAL and 0 <= second <= 1 and 0 <= ci < len(CHAINS[va]) and ci <= B['dc']
    pre: 0 <= t1 < len(TAILS) and 0 <= t2 < len(TAILS)
    post: _
    """
    # two fields: the same name twice (duplicate keys with the same or a different conversion /
    # spec: the '/2' counter of KeyFlattener) or a and b; menus only (the solver drives the split)
    name1 = "a" + _pick(ci, CHAINS[va])
    name2 = name1 if second == 0 else "b"
    r = _check("{" + name1 + _pick(t1, TAILS) + "} and {" + name2 + _pick(t2, TAILS) + "}", va, 12, False)
    if r is None:
        return True
    cover()
    return r


def _single_shards(tier):
    m = BOUNDS[tier]["m"]
    out = [("len(body) <= %d" % (m - 1),)]
    # quick tier: the longest bodies only with log_failure / log_level in the event; the same format
    # strings without them are chain()'s empty chain with a tail of k = m characters
    out += [("len(body) == %d" % m, "va == %d" % a) + (("fl == True",) if tier == "quick" else ())
            for a in range(NVAL)]
    return out


def _free_shards(tier):
    m = BOUNDS[tier]["m"]
    out = [("len(body) <= %d" % (m - 1),)]
    out += [("len(body) == %d" % m, "va == %d" % a) for a in ((0, 3, 4) if tier == "quick" else range(NVAL))]
    return out


def _chain_shards(tier):
    k = BOUNDS[tier]["k"]
    out = [("len(tail) <= %d" % (k - 1), "va <= 4"), ("len(tail) <= %d" % (k - 1), "va >= 5")]
    for a in range(NVAL):
        if len(CHAINS[a]) > 4:       # many chains: two shards
            out += [("len(tail) == %d" % k, "va == %d" % a, "ci <= 2"), ("len(tail) == %d" % k, "va == %d" % a, "ci >= 3")]
        else:
            out += [("len(tail) == %d" % k, "va == %d" % a)]
    return out


HARNESSES = [
    H(single, shards=_single_shards, timeout={"quick": 150, "thorough": 1500}, labels=("end", "formats", "extract")),
    H(free_field, shards=_free_shards, timeout={"quick": 150, "thorough": 1500}),
    H(chain, shards=_chain_shards, timeout={"quick": 150, "thorough": 1500}, labels=("end", "extract")),
    H(double, shards=lambda tier: [("va == %d" % a,) for a in range(NVAL)], timeout={"quick": 150, "thorough": 900}),
]

VECTORS = {
    # twisted.logger.test.test_flatten (formatFlatEvent: callable, attribute, numrepr/numstr/strrepr/unistr;
    # formatFlatEventBadFormat-free cases; flatten same field twice; extractField variants) and
    # test_json (round trips incl. bytes, Failure) mapped onto the menus
    "single": [("", 0, False), ("!r", 1, True), (".r()", 4, False), ("[0]", 2, False), ("()", 5, False),
               ("[b][0]", 3, False), (".s[1]!r", 4, True), ("!s", 7, False), (":>5", 0, False), ("!a", 1, False),
               ("().b", 6, False), ("!r:>12", 1, False), (":{b}", 1, False), (":>{b()}", 1, False),
               (":0{b.r()}d", 0, True), ("!r:^{b.a}", 1, False)],
    "free_field": [("a", 9), ("b.a", 0), ("b.r()!r", 0), ("a[a]", 3)],
    "chain": [(4, 4, "!r"), (6, 3, ""), (3, 3, "!s"), (2, 1, ":>4"), (0, 1, "!a")],
    "double": [(0, 0, 0, 0, 0), (1, 2, 1, 0, 0), (1, 1, 1, 0, 0), (0, 1, 4, 1, 1), (7, 7, 5, 0, 0), (5, 6, 0, 0, 0),
               (8, 9, 1, 0, 0), (3, 3, 1, 1, 0)],
}

BOUNDS_TEXT = ("format strings '<{a' + body + '}>' with symbolic body of <= m characters over the 14 characters "
               "{ } ! : . [ ] ( ) a b 0 r s (single; with and without log_failure + log_level), '{' + body + '}' "
               "with entirely symbolic body of <= m characters (free_field), 'a' + one of the lookup chains that "
               "exist on the value (attribute, index, call syntax in last and non-last position; the first "
               "cc+1 of up to 8 chains per value, 40 in all) + symbolic tail of <= k characters = conversion / format spec / anything (chain), and two "
               "fields {x t1} and {x|b t2} with x one of the first dc+1 chains of the value and t1, t2 from 10 conversion / spec suffixes incl. "
               "nested specs whose inner field uses plain / call / method-call syntax (double; menus); values: int, str with quote / backslash / non-ASCII / newline, "
               "list, dict, object with attributes, callables returning text / an object / a fresh count per "
               "call, bytes, None, float, object whose format(x, '') differs from str(x)")
OUTSIDE = ["events whose format string does NOT format on the original event (formatWithCall raises): nothing is "
           "claimed about the text after flattening then",
           "values that format non-deterministically or change between flatten time and format time (flattening "
           "stores the text at flatten time by design)",
           "the structured values after JSON (non-JSON types become {'unpersistable': true} / charmap text by "
           "design) and the exception VALUE of a Failure (its traceback's last line changes); checked: text of "
           "formatEvent, extractField text, Failure type name + frames, LogLevel identity",
           "format strings longer than the bounds or with characters outside the alphabet; field names other than "
           "the listed chains beyond m symbolic characters",
           "jsonFileLogObserver / eventsFromJSONLogFile (record framing, buffering, truncated records)"]
ASSUMPTIONS = ["everything listed in props/c55.py ASSUMPTIONS (pure-Python ports of _string.formatter_parser / "
               "formatter_field_name_split validated in selftest(); restored str/repr/format result checks; "
               "symbolic getattr; scan-dict event; control-flow exception guards)",
               "the JSON leg runs on a concrete copy of the event with the real C json module outside the tracer: "
               "by then every symbolic character of a replacement field has been pinned by the real flattenEvent "
               "(KeyFlattener hashes the key), so the solver still decides which strings reach it; the symbolic "
               "part is formatWithCall, flattenEvent, flatFormat, extractField",
               "equality of texts is decided in both operand orders (CrossHair str == quirk)"]
EXPLANATION = ("real formatWithCall vs flattenEvent + flatFormat vs eventAsJSON + eventFromJSON + flatFormat (and "
               "extractField) on symbolic replacement fields; texts must be equal whenever the original formats")


def selftest():
    return _c55.selftest()
