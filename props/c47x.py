from props.c47 import *
from props.c47 import _split_cases, _valid_outcome, _port_ok, _port_val, _menu, _judge, _ref_v1
from props import c47 as _m
PROPERTY = "C47"
B = _m.B

def e1(pay: str, split: int) -> bool:
    """
    pre: len(pay) == 2 and all(ord(c) < 256 for c in pay)
    pre: 0 <= split <= 40
    post: _
    """
    hdr = "PROXY TCP4 1.2.3.4 5.6.7.8 10 443\r\n"
    stream = hdr + pay
    k = _split_cases(len(stream), split)
    r = Run(stream, k)
    cover()
    return _valid_outcome(r, k, len(hdr), pay, ("4", "TCP", "1.2.3.4", 10), ("4", "TCP", "5.6.7.8", 443))

def e2(sp: str, split: int) -> bool:
    """
    pre: len(sp) == 2 and _port_ok(sp)
    pre: 0 <= split <= 40
    post: _
    """
    hdr = "PROXY TCP4 1.2.3.4 5.6.7.8 " + sp + " 443\r\n"
    stream = hdr + "XY"
    k = _split_cases(len(stream), split)
    r = Run(stream, k)
    cover()
    return _valid_outcome(r, k, len(hdr), "XY", ("4", "TCP", "1.2.3.4", _port_val(sp)), ("4", "TCP", "5.6.7.8", 443))

HARNESSES = [H(e1, timeout=100), H(e2, timeout=100)]
VECTORS = {}

def _conc_char(ch, specials):
    S = sorted(set(ord(c) for c in specials))
    o = ord(ch)
    lo, hi = 0, len(S) - 1
    while lo <= hi:
        mid = (lo + hi) // 2
        if o == S[mid]:
            return chr(S[mid])
        if o < S[mid]:
            hi = mid - 1
        else:
            lo = mid + 1
    return ch

_SPECIAL = " \r\n.:%0123456789abcdefABCDEFPROXYTUNKW"

def e3(pos: int, ch: str) -> bool:
    """
    pre: 27 <= pos <= 28 and len(ch) == 1 and ord(ch) < 256
    post: _
    """
    hdr = "PROXY TCP4 1.2.3.4 25.6.7.8 10 443\r\n"
    p = _split_cases(len(hdr) - 1, pos)
    ch = _conc_char(ch, _SPECIAL)
    if ch == hdr[p]:
        return True
    stream = hdr[:p] + ch + hdr[p + 1:] + "XY"
    r = Run(stream, 0)
    cover()
    return _judge(r, _ref_v1(stream))

def e4(pos: int, ch: str) -> bool:
    """
    pre: 27 <= pos <= 28 and len(ch) == 1 and ord(ch) < 256
    pre: ch not in " \\r\\n.:%0123456789abcdefABCDEFPROXYTUNKW"
    post: _
    """
    hdr = "PROXY TCP4 1.2.3.4 25.6.7.8 10 443\r\n"
    p = _split_cases(len(hdr) - 1, pos)
    stream = hdr[:p] + ch + hdr[p + 1:] + "XY"
    r = Run(stream, 0)
    cover()
    return _judge(r, _ref_v1(stream))

HARNESSES += [H(e3, timeout=100), H(e4, timeout=100)]
