"""C54 FTP path containment: whatever working directory changes and path arguments a client sends,
the FTP server only ever touches filesystem paths inside the shell's root.

Engine E1 (native symbolic `str`): the real ftp.toSegments, FTPShell._path / FTPAnonymousShell._path
(-> FilePath.descendant -> FilePath.child), and the real FTP.ftp_CWD / ftp_MKD / ftp_RMD / ftp_DELE /
ftp_RNFR+ftp_RNTO command handlers with the real FTPShell on a strict fake `os` / `os.path` over a
modelled directory tree (multi-path functions such as removedirs walk it with their real semantics).
Uses the posixpath rebinding of props.c26 (pure-Python normpath/abspath/join inside
twisted.python.filepath, validated against os.path on every run).
"""
import errno
import os
import posixpath
from typing import List

from vlib import api
from vlib.api import H, cover

from props import c26 as _c26   # rebinding of normpath/abspath/joinpath + constant repr of symbolic str
from twisted.protocols import ftp as _ftp
from twisted.python import filepath as _fp
from twisted.python.filepath import FilePath, InsecurePath

PROPERTY = "C54"
LEVEL = "model_checking"
ENCODED = ["twisted.protocols.ftp:toSegments", "twisted.protocols.ftp:FTPAnonymousShell._path",
           "twisted.protocols.ftp:FTP.ftp_CWD", "twisted.protocols.ftp:FTP.ftp_MKD",
           "twisted.protocols.ftp:FTP.ftp_RMD", "twisted.protocols.ftp:FTP.ftp_DELE",
           "twisted.protocols.ftp:FTP.ftp_RNTO", "twisted.protocols.ftp:FTPShell.makeDirectory",
           "twisted.protocols.ftp:FTPShell.removeDirectory", "twisted.protocols.ftp:FTPShell.removeFile",
           "twisted.protocols.ftp:FTPShell.rename", "twisted.protocols.ftp:FTPAnonymousShell.access",
           "twisted.python.filepath:AbstractFilePath.descendant", "twisted.python.filepath:FilePath.child"]
BOUNDS = {"quick": {"n": 5, "c": 1, "s": 4}, "thorough": {"n": 6, "c": 2, "s": 6}}
B = {}
BOUNDS_TEXT = ("root /r/ab (sibling /r/abc in mind); inductive step: working directory of <= 2 arbitrary *valid* "
               "segments of <= c characters each (any value toSegments can have produced) and a path argument of "
               "<= n arbitrary code points; sessions: CWD p1 then one of CWD/MKD/RMD/DELE/RNFR+RNTO with p2, "
               "len(p1) + len(p2) <= s, from the initial working directory")
OUTSIDE = ["symbolic links (excluded by the property) and any real filesystem: inside twisted.protocols.ftp and "
           "twisted.python.filepath `os`, `os.path` (and `shutil` if imported) are a strict fake over a modelled "
           "tree ('/', '/r' holding only 'ab', the root; below the root a path exists from the first time the "
           "session looks at it, as a directory, for DELE as a regular file).  removedirs / makedirs / renames / "
           "rmtree run CPython's algorithms on that tree and every path they walk is recorded; any unmodelled "
           "filesystem function raises and is reported as a violation; errno behaviour is modelled for ENOENT, "
           "EEXIST, ENOTDIR, EISDIR, ENOTEMPTY only",
           "pure existence lookups (stat/exists) of the root's own ancestors '/r' and '/' are tolerated: "
           "os.makedirs(root) for 'MKD /' asks whether '/r' exists before failing with EEXIST; listing, creating, "
           "removing, renaming or chmod-ing anything outside the root is a violation, as is any lookup of a "
           "non-ancestor outside the root",
           "the builtin open() (FilePath.open / create; not reached by the session commands) and functions "
           "imported inside a function body",
           "the command line parser (FTP.lineReceived/processCommand splitting the verb from the argument) and the "
           "data-connection commands LIST/NLST/RETR/STOR/APPE/SIZE/MDTM (they obtain their path through the same "
           "toSegments(self.workingDirectory, path) + shell._path calls that are checked here)",
           "working directories deeper than two segments in the inductive step (segments are handled uniformly: "
           "the representation invariant 'every segment is non-empty, not . or .., without / and NUL' is checked to "
           "be re-established by toSegments for every input)",
           "Windows path rules"]
ASSUMPTIONS = ["posixpath.normpath/abspath/join replaced by CPython's pure-Python algorithms (see C26; compared "
               "with os.path on a corpus on every run)",
               "repr() of a symbolic str is a constant under the solver (only used in exception messages)",
               "inductive step assumes the working directory invariant (every segment non-empty, not '.'/'..', no "
               "'/' or NUL); the same harness shows toSegments re-establishes it, and [] satisfies it"]
EXPLANATION = ("real toSegments + shell._path on a symbolic working directory and path argument; real FTP command "
               "handlers + FTPShell on a strict fake os over a modelled tree: every path produced or touched is the root or a "
               "normalised path below it")

ROOT = _c26.ROOT
_contained = _c26._contained


def _valid_seg(s):
    return not (s == "" or s == "." or s == ".." or "/" in s or "\0" in s)


def _valid(segs):
    for s in segs:
        if not _valid_seg(s):
            return False
    return True


def segments(cwd: List[str], path: str) -> bool:
    """
    pre: len(cwd) <= 2 and all(len(s) <= B['c'] for s in cwd)
    pre: len(path) <= (B['n'] if len(cwd) == 0 else B['n'] - 1)
    pre: _valid(cwd)
    post: _
    """
    before = list(cwd)
    try:
        segs = _ftp.toSegments(cwd, path)
    except _ftp.InvalidPath:
        cover("invalid")
        return cwd == before
    cover()
    if cwd != before:          # the server's working directory must not be changed by a lookup
        return False
    if not _valid(segs):       # invariant re-established (so it holds after any number of CWDs)
        return False
    shell = _ftp.FTPShell(FilePath(ROOT))
    try:
        p = shell._path(segs)
    except InsecurePath:
        return False           # a valid segment list is always a path below the root
    if not _contained(p.path, False):
        return False
    return p.path == "/".join([ROOT] + segs)


def anonymous(cwd: List[str], path: str) -> bool:
    """
    pre: len(cwd) <= 1 and all(len(s) <= B['c'] for s in cwd) and len(path) <= B['n'] - 1
    pre: _valid(cwd)
    post: _
    """
    try:
        segs = _ftp.toSegments(cwd, path)
    except _ftp.InvalidPath:
        return True
    shell = _ftp.FTPAnonymousShell(FilePath(ROOT))
    try:
        p = shell._path(segs)
    except InsecurePath:
        return False
    cover()
    return _contained(p.path, False)


# ---- sessions against the real command handlers, strict fake filesystem -----------------------

class _Unmodelled(Exception):
    pass


def _split(p):
    """posixpath.split"""
    i = p.rfind("/") + 1
    head, tail = p[:i], p[i:]
    if head and head != "/" * len(head):
        head = head.rstrip("/")
    return head, tail


def _err(code):
    return OSError(code, os.strerror(code))      # no path in the message: it may be symbolic


_PURE_OS = ("sep", "altsep", "extsep", "curdir", "pardir", "linesep", "name", "error", "fspath", "strerror",
            "fsencode", "fsdecode", "R_OK", "W_OK", "X_OK", "F_OK", "O_CREAT", "O_EXCL", "O_RDWR", "O_RDONLY",
            "O_WRONLY", "O_TRUNC", "O_APPEND", "PathLike")
_PURE_PATH = ("join", "split", "basename", "dirname", "splitext", "normpath", "isabs", "sep", "commonprefix")


class _FakeFS:
    """Strict stand-in for `os`, `os.path` and `shutil` inside twisted.protocols.ftp and
    twisted.python.filepath.  Every function that reaches the filesystem is either modelled on the
    tree below (recording EVERY path it touches, also the ones touched by the multi-path functions
    removedirs / makedirs / renames / rmtree on the way) or raises _Unmodelled and is noted in
    `unmodelled`, which the oracle reports; nothing ever falls through to the real os.

    The tree: '/', '/r' and the root '/r/ab' are directories and '/r' holds nothing but 'ab'.
    Below the root nothing exists until the session looks at it: the first stat / exists / listdir
    / islink / access of a path inside the root makes it exist (a directory, or a regular file when
    `asfile`) together with its missing ancestors, unless it was removed before.  So the client has
    prepared exactly what its commands need and directories are as empty as they can be: an
    emptiness-driven walk upwards (os.removedirs, os.renames) is not stopped by bystanders."""

    def __init__(self, asfile):
        self.asfile = asfile
        self.log = []       # paths listed, created, removed, renamed, chmod-ed (every one walked)
        self.probes = []    # paths whose existence / type was looked up (stat, exists, access, islink)
        self.unmodelled = []
        self.dirs = ["/", "/r", ROOT]
        self.files = []
        self.gone = []
        self.path = _FakePath(self)

    # -- strictness ---------------------------------------------------------------------------
    def __getattr__(self, name):
        if name in _PURE_OS:
            return getattr(os, name)
        return self._refuse("os." + name)

    def _refuse(self, name):
        def unmodelled(*a, **k):
            self.unmodelled.append(name)
            raise _Unmodelled(name)
        return unmodelled

    # -- the tree -----------------------------------------------------------------------------
    def _in(self, lst, p):
        for e in lst:
            if e == p:
                return True
        return False

    def _kind(self, p, look):
        if self._in(self.dirs, p):
            return "d"
        if self._in(self.files, p):
            return "f"
        if not look or self._in(self.gone, p) or not _contained(p, False):
            return None
        # first look at a path inside the root: it exists, with its ancestors
        chain = []
        q = p
        while q != ROOT:
            chain.append(q)
            q = _split(q)[0]
        if not self._in(self.dirs, ROOT):
            return None
        for anc in reversed(chain[1:]):
            if self._in(self.files, anc) or self._in(self.gone, anc):
                return None
            if not self._in(self.dirs, anc):
                self.dirs.append(anc)
        (self.files if self.asfile else self.dirs).append(p)
        return "f" if self.asfile else "d"

    def _children(self, p):
        return [e for e in self.dirs + self.files if e != p and _split(e)[0] == p]

    def _drop(self, p):
        self.dirs = [e for e in self.dirs if e != p]
        self.files = [e for e in self.files if e != p]
        self.gone.append(p)

    def _add(self, p, kind):
        self.gone = [e for e in self.gone if e != p]
        (self.dirs if kind == "d" else self.files).append(p)

    # -- single-path functions --------------------------------------------------------------
    def stat(self, p, *a, **k):
        self.probes.append(p)
        kind = self._kind(p, True)
        if kind is None:
            raise _err(errno.ENOENT)
        return _DIRSTAT if kind == "d" else _FILESTAT

    lstat = stat

    def access(self, p, mode, *a, **k):
        self.probes.append(p)
        return self._kind(p, True) is not None

    def listdir(self, p="."):
        self.log.append(p)
        kind = self._kind(p, True)
        if kind is None:
            raise _err(errno.ENOENT)
        if kind == "f":
            raise _err(errno.ENOTDIR)
        return [_split(e)[1] for e in self._children(p)]

    def mkdir(self, p, *a, **k):
        self.log.append(p)
        if self._kind(p, False) is not None:
            raise _err(errno.EEXIST)
        parent = self._kind(_split(p)[0], False)
        if parent is None:
            raise _err(errno.ENOENT)
        if parent == "f":
            raise _err(errno.ENOTDIR)
        self._add(p, "d")

    def rmdir(self, p, *a, **k):
        self.log.append(p)
        kind = self._kind(p, True)
        if kind is None:
            raise _err(errno.ENOENT)
        if kind == "f":
            raise _err(errno.ENOTDIR)
        if self._children(p):
            raise _err(errno.ENOTEMPTY)
        if p == "/":
            raise _err(errno.EBUSY)
        self._drop(p)

    def remove(self, p, *a, **k):
        self.log.append(p)
        kind = self._kind(p, True)
        if kind is None:
            raise _err(errno.ENOENT)
        if kind == "d":
            raise _err(errno.EISDIR)
        self._drop(p)

    unlink = remove

    def chmod(self, p, *a, **k):
        self.log.append(p)
        if self._kind(p, True) is None:
            raise _err(errno.ENOENT)

    def rename(self, src, dst, *a, **k):
        self.log.append(src)
        self.log.append(dst)
        kind = self._kind(src, True)
        if kind is None:
            raise _err(errno.ENOENT)
        parent = self._kind(_split(dst)[0], True)
        if parent is None:
            raise _err(errno.ENOENT)
        if parent == "f":
            raise _err(errno.ENOTDIR)
        if src == dst:
            return
        dk = self._kind(dst, False)
        if dk is not None and (dk != kind or self._children(dst)):
            raise _err(errno.ENOTEMPTY if dk == "d" else errno.ENOTDIR)
        if dk is not None:
            self._drop(dst)
        # the subtree moves along
        moved = [(e, "d") for e in self.dirs if e.startswith(src + "/")]
        moved += [(e, "f") for e in self.files if e.startswith(src + "/")]
        for e, ek in moved:
            self._drop(e)
        self._drop(src)
        self._add(dst, kind)
        for e, ek in moved:
            self._add(dst + e[len(src):], ek)

    replace = rename

    # -- multi-path functions: CPython's algorithms on the functions above ----------------------
    def removedirs(self, name):
        self.rmdir(name)
        head, tail = _split(name)
        if not tail:
            head, tail = _split(head)
        while head and tail:
            try:
                self.rmdir(head)
            except OSError:
                break
            head, tail = _split(head)

    def makedirs(self, name, mode=0o777, exist_ok=False):
        head, tail = _split(name)
        if not tail:
            head, tail = _split(head)
        if head and tail and not self._exists_quiet(head):
            try:
                self.makedirs(head, exist_ok=exist_ok)
            except FileExistsError:
                pass
            if tail == ".":
                return
        try:
            self.mkdir(name, mode)
        except OSError:
            if not exist_ok or self._kind(name, False) != "d":
                raise

    def _exists_quiet(self, p):
        # os.path.exists inside makedirs/renames: looks at p, but an absent path stays absent
        self.probes.append(p)
        return self._kind(p, False) is not None

    def renames(self, old, new):
        head, tail = _split(new)
        if head and tail and not self._exists_quiet(head):
            self.makedirs(head)
        self.rename(old, new)
        head, tail = _split(old)
        if head and tail:
            try:
                self.removedirs(head)
            except OSError:
                pass

    # -- shutil (bound into the modules under test only if they import it) -------------------
    def rmtree(self, p, *a, **k):
        self.log.append(p)
        if self._kind(p, True) != "d":
            raise _err(errno.ENOTDIR)
        for e in [e for e in self.dirs + self.files if e.startswith(p + "/")]:
            self.log.append(e)
            self._drop(e)
        self._drop(p)

    def move(self, src, dst, *a, **k):
        self.rename(src, dst)
        return dst


class _FakePath:
    """strict os.path: pure string functions pass through, filesystem predicates use the tree"""

    def __init__(self, fs):
        self._fs = fs

    def __getattr__(self, name):
        if name in _PURE_PATH:
            return getattr(posixpath, name)
        return self._fs._refuse("os.path." + name)

    def exists(self, p):
        self._fs.probes.append(p)
        return self._fs._kind(p, True) is not None

    lexists = exists

    def isdir(self, p):
        self._fs.probes.append(p)
        return self._fs._kind(p, True) == "d"

    def isfile(self, p):
        self._fs.probes.append(p)
        return self._fs._kind(p, True) == "f"

    def islink(self, p):
        self._fs.probes.append(p)
        return False


class _FakeShutil:
    def __init__(self, fs):
        self._fs = fs
        self.rmtree = fs.rmtree
        self.move = fs.move

    def __getattr__(self, name):
        return self._fs._refuse("shutil." + name)


_DIRSTAT = os.stat_result((0o040755, 1, 1, 1, 0, 0, 0, 0, 0, 0))
_FILESTAT = os.stat_result((0o100644, 2, 1, 1, 0, 0, 0, 0, 0, 0))
_MISSING = object()


def _install(fs):
    """bind the fake into both modules under test; returns the undo list"""
    sh = _FakeShutil(fs)
    new = [(_ftp, "os", fs), (_fp, "os", fs), (_fp, "stat", fs.stat), (_fp, "listdir", fs.listdir),
           (_fp, "utime", fs._refuse("os.utime")), (_fp, "exists", fs.path.exists), (_fp, "islink", fs.path.islink)]
    for mod in (_ftp, _fp):
        if hasattr(mod, "shutil"):
            new.append((mod, "shutil", sh))
    undo = [(mod, name, getattr(mod, name, _MISSING)) for mod, name, _ in new]
    for mod, name, val in new:
        setattr(mod, name, val)
    return undo


def _uninstall(undo):
    for mod, name, val in undo:
        if val is _MISSING:
            delattr(mod, name)
        else:
            setattr(mod, name, val)


_OPS = ["CWD", "MKD", "RMD", "DELE", "RNTO", "RNFR"]


def _run(d):
    out = []
    if hasattr(d, "addCallbacks"):
        d.addCallbacks(lambda r: out.append("ok"), lambda f: out.append("fail"))
        return out[0] if out else "pending"
    return "ok"


def session(p1: str, p2: str, op: int) -> bool:
    """
    pre: len(p1) + len(p2) <= B['s'] and 0 <= op <= 5
    post: _
    """
    # what the session looks at exists as a directory, for DELE (which refuses directories) as a
    # regular file: every operation goes as far into the filesystem layer as it can
    fs = _FakeFS(op == 3)
    log = fs.log
    undo = _install(fs)
    try:
        srv = _ftp.FTP()
        srv.shell = _ftp.FTPShell(FilePath(ROOT))
        srv.workingDirectory = []
        r1 = _run(srv.ftp_CWD(p1))
        wd = list(srv.workingDirectory)
        if op == 0:
            r2 = _run(srv.ftp_CWD(p2))
        elif op == 1:
            r2 = _run(srv.ftp_MKD(p2))
        elif op == 2:
            r2 = _run(srv.ftp_RMD(p2))
        elif op == 3:
            r2 = _run(srv.ftp_DELE(p2))
        elif op == 4:
            srv.ftp_RNFR("x")
            r2 = _run(srv.ftp_RNTO(p2))
        else:
            srv.ftp_RNFR(p2)
            r2 = _run(srv.ftp_RNTO("x"))
    finally:
        _uninstall(undo)
    api.obs((r1, r2, wd, list(fs.probes), list(log), list(fs.unmodelled)))
    cover()
    if r2 == "ok":
        cover("done")
    if not (_valid(wd) and _valid(srv.workingDirectory)):
        return False
    if op != 0 and srv.workingDirectory != wd:      # only CWD moves the working directory
        return False
    if fs.unmodelled:          # a filesystem function the fake does not model was called
        return False
    for p in log:              # listed / created / removed / renamed, parents walked included
        if not (isinstance(p, str) and _contained(p, False)):
            return False
    for p in fs.probes:
        # existence lookups too, except of the root's own ancestors: os.makedirs(root) (MKD /) asks
        # whether '/r' exists before it fails with EEXIST; that opens, lists or changes nothing
        if not (isinstance(p, str) and (_contained(p, False) or p == "/r" or p == "/")):
            return False
    # the operation really reached the filesystem layer whenever it reported success
    return r2 != "ok" or len(log) + len(fs.probes) > 0


_SHAPES = [(), (1,), (2,), (1, 1), (1, 2), (2, 1), (2, 2), (3,), (3, 1), (1, 3)]


def _shape_pre(shape):
    return ["len(cwd) == %d" % len(shape)] + ["len(cwd[%d]) == %d" % (i, k) for i, k in enumerate(shape)]


_PCLS = ["%s == '/'", "%s == '.'", "%s < '.'", "%s > '/'"]


def _seg_shards(tier):
    c = BOUNDS[tier]["c"]
    out = []
    for shape in _SHAPES:
        if any(k > c for k in shape):
            continue
        n = BOUNDS[tier]["n"] if not shape else BOUNDS[tier]["n"] - 1
        out.append(tuple(["len(path) <= %d" % (n - 2)] + _shape_pre(shape)))
        out.append(tuple(["len(path) == %d" % (n - 1)] + _shape_pre(shape)))
        if tier == "quick":
            out.append(tuple(["len(path) == %d" % n] + _shape_pre(shape)))
        else:
            out += [tuple(["len(path) == %d" % n, cl % "path[0]"] + _shape_pre(shape)) for cl in _PCLS]
    return out


def _sess_shards(tier):
    s = BOUNDS[tier]["s"]
    out = [("len(p1) + len(p2) <= %d" % (s - 2),)]
    out += [("len(p1) + len(p2) == %d" % (s - 1), "op == %d" % o) for o in range(6)]
    out += [("len(p1) == %d" % i, "len(p2) == %d" % (s - i), "op == %d" % o) for i in range(0, s + 1) for o in range(6)]
    return out


HARNESSES = [
    H(segments, shards=_seg_shards, labels=("end", "invalid"), timeout={"quick": 120, "thorough": 1500}),
    H(anonymous, shards=lambda tier: [("len(cwd) == 0",), ("len(cwd) == 1",)], timeout={"quick": 120, "thorough": 1500}),
    H(session, shards=_sess_shards, labels=("end", "done"), timeout={"quick": 120, "thorough": 1500}),
]

VECTORS = {
    "segments": [([], "a"), ([], ".."), (["a"], ".."), (["a", "b"], "../../.."), (["a"], "/"), ([], "a\x00b"),
                 (["x"], "../../abc"), ([], "/../abc"), (["a"], "b//c/./d"), ([], ""), (["a"], "..."), ([], "a\\..\\b")],
    "anonymous": [([], "a/b"), (["a"], "../.."), ([], "..")],
    "session": [("a", "b", 1), ("..", "x", 3), ("a/b", "../../..", 0), ("/", "../abc", 2),
                ("a", "/b", 4), ("a", "..", 5), ("\x00", "a", 1), ("a", "", 0), ("", "x", 2), ("x", "/", 1),
                ("a/b", "/a/b", 2), ("a", "../..", 2)],
}


def selftest():
    return _c26.selftest()
