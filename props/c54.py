"""C54 FTP path containment: whatever working directory changes and path arguments a client sends,
the FTP server only ever touches filesystem paths inside the shell's root.

Engine E1 (native symbolic `str`): the real ftp.toSegments, FTPShell._path / FTPAnonymousShell._path
(-> FilePath.descendant -> FilePath.child), and the real FTP.ftp_CWD / ftp_MKD / ftp_RMD / ftp_DELE /
ftp_RNFR+ftp_RNTO command handlers with the real FTPShell on a recording fake `os` layer.
Uses the posixpath rebinding of props.c26 (pure-Python normpath/abspath/join inside
twisted.python.filepath, validated against os.path on every run).
"""
import os
from typing import List

from vlib import api
from vlib.api import H, cover

from props import c26 as _c26   # rebinding of normpath/abspath/joinpath + constant repr of symbolic str
from twisted.protocols import ftp as _ftp
from twisted.python import filepath as _fp
from twisted.python.filepath import FilePath, InsecurePath

PROPERTY = "C54"
LEVEL = "model_checking"
ENCODED = ["twisted.protocols.ftp:toSegments", "twisted.protocols.ftp:FTPAnonymousShell._path",
           "twisted.protocols.ftp:FTP.ftp_CWD", "twisted.protocols.ftp:FTP.ftp_MKD",
           "twisted.protocols.ftp:FTP.ftp_RMD", "twisted.protocols.ftp:FTP.ftp_DELE",
           "twisted.protocols.ftp:FTP.ftp_RNTO", "twisted.protocols.ftp:FTPShell.makeDirectory",
           "twisted.protocols.ftp:FTPShell.removeDirectory", "twisted.protocols.ftp:FTPShell.removeFile",
           "twisted.protocols.ftp:FTPShell.rename", "twisted.protocols.ftp:FTPAnonymousShell.access",
           "twisted.python.filepath:AbstractFilePath.descendant", "twisted.python.filepath:FilePath.child"]
BOUNDS = {"quick": {"n": 5, "c": 1, "s": 4}, "thorough": {"n": 6, "c": 2, "s": 6}}
B = {}
BOUNDS_TEXT = ("root /r/ab (sibling /r/abc in mind); inductive step: working directory of <= 2 arbitrary *valid* "
               "segments of <= c characters each (any value toSegments can have produced) and a path argument of "
               "<= n arbitrary code points; sessions: CWD p1 then one of CWD/MKD/RMD/DELE/RNFR+RNTO with p2, "
               "len(p1) + len(p2) <= s, from the initial working directory")
OUTSIDE = ["symbolic links (excluded by the property) and any real filesystem: os / os.path calls made by FTPShell "
           "and FilePath are recorded by a fake (stat says 'directory', for DELE 'regular file'; nothing "
           "raises OSError)",
           "the command line parser (FTP.lineReceived/processCommand splitting the verb from the argument) and the "
           "data-connection commands LIST/NLST/RETR/STOR/APPE/SIZE/MDTM (they obtain their path through the same "
           "toSegments(self.workingDirectory, path) + shell._path calls that are checked here)",
           "working directories deeper than two segments in the inductive step (segments are handled uniformly: "
           "the representation invariant 'every segment is non-empty, not . or .., without / and NUL' is checked to "
           "be re-established by toSegments for every input)",
           "Windows path rules"]
ASSUMPTIONS = ["posixpath.normpath/abspath/join replaced by CPython's pure-Python algorithms (see C26; compared "
               "with os.path on a corpus on every run)",
               "repr() of a symbolic str is a constant under the solver (only used in exception messages)",
               "inductive step assumes the working directory invariant (every segment non-empty, not '.'/'..', no "
               "'/' or NUL); the same harness shows toSegments re-establishes it, and [] satisfies it"]
EXPLANATION = ("real toSegments + shell._path on a symbolic working directory and path argument; real FTP command "
               "handlers + FTPShell on a recording fake os: every path produced or touched is the root or a "
               "normalised path below it")

ROOT = _c26.ROOT
_contained = _c26._contained


def _valid_seg(s):
    return not (s == "" or s == "." or s == ".." or "/" in s or "\0" in s)


def _valid(segs):
    for s in segs:
        if not _valid_seg(s):
            return False
    return True


def segments(cwd: List[str], path: str) -> bool:
    """
    pre: len(cwd) <= 2 and all(len(s) <= B['c'] for s in cwd)
    pre: len(path) <= (B['n'] if len(cwd) == 0 else B['n'] - 1)
    pre: _valid(cwd)
    post: _
    """
    before = list(cwd)
    try:
        segs = _ftp.toSegments(cwd, path)
    except _ftp.InvalidPath:
        cover("invalid")
        return cwd == before
    cover()
    if cwd != before:          # the server's working directory must not be changed by a lookup
        return False
    if not _valid(segs):       # invariant re-established (so it holds after any number of CWDs)
        return False
    shell = _ftp.FTPShell(FilePath(ROOT))
    try:
        p = shell._path(segs)
    except InsecurePath:
        return False           # a valid segment list is always a path below the root
    if not _contained(p.path, False):
        return False
    return p.path == "/".join([ROOT] + segs)


def anonymous(cwd: List[str], path: str) -> bool:
    """
    pre: len(cwd) <= 1 and all(len(s) <= B['c'] for s in cwd) and len(path) <= B['n'] - 1
    pre: _valid(cwd)
    post: _
    """
    try:
        segs = _ftp.toSegments(cwd, path)
    except _ftp.InvalidPath:
        return True
    shell = _ftp.FTPAnonymousShell(FilePath(ROOT))
    try:
        p = shell._path(segs)
    except InsecurePath:
        return False
    cover()
    return _contained(p.path, False)


# ---- sessions against the real command handlers, recording fake os ----------------------------

class _FakeOS:
    """stands in for the `os` module inside twisted.protocols.ftp and twisted.python.filepath"""

    def __init__(self, log, isdir):
        self._log = log
        mode = 0o040755 if isdir else 0o100644
        self._st = os.stat_result((mode, 1, 1, 1, 0, 0, 0, 0, 0, 0))

    def __getattr__(self, name):
        return getattr(os, name)

    def stat(self, p, *a, **k):
        self._log.append(p)
        return self._st

    lstat = stat

    def listdir(self, p):
        self._log.append(p)
        return []

    def _one(self, p, *a, **k):
        self._log.append(p)

    makedirs = mkdir = remove = unlink = rmdir = chmod = _one

    def rename(self, a, b_, *r, **k):
        self._log.append(a)
        self._log.append(b_)

    def islink(self, p):
        self._log.append(p)
        return False


_OPS = ["CWD", "MKD", "RMD", "DELE", "RNTO", "RNFR"]


def _run(d):
    out = []
    if hasattr(d, "addCallbacks"):
        d.addCallbacks(lambda r: out.append("ok"), lambda f: out.append("fail"))
        return out[0] if out else "pending"
    return "ok"


def session(p1: str, p2: str, op: int) -> bool:
    """
    pre: len(p1) + len(p2) <= B['s'] and 0 <= op <= 5
    post: _
    """
    log = []
    # stat answers "directory" except for DELE (which refuses directories): every operation goes as
    # far into the filesystem layer as it can
    fos = _FakeOS(log, op != 3)
    saved = (_ftp.os, _fp.os, _fp.stat, _fp.listdir, _fp.islink)
    _ftp.os = fos
    _fp.os, _fp.stat, _fp.listdir, _fp.islink = fos, fos.stat, fos.listdir, fos.islink
    try:
        srv = _ftp.FTP()
        srv.shell = _ftp.FTPShell(FilePath(ROOT))
        srv.workingDirectory = []
        r1 = _run(srv.ftp_CWD(p1))
        wd = list(srv.workingDirectory)
        if op == 0:
            r2 = _run(srv.ftp_CWD(p2))
        elif op == 1:
            r2 = _run(srv.ftp_MKD(p2))
        elif op == 2:
            r2 = _run(srv.ftp_RMD(p2))
        elif op == 3:
            r2 = _run(srv.ftp_DELE(p2))
        elif op == 4:
            srv.ftp_RNFR("x")
            r2 = _run(srv.ftp_RNTO(p2))
        else:
            srv.ftp_RNFR(p2)
            r2 = _run(srv.ftp_RNTO("x"))
    finally:
        _ftp.os, _fp.os, _fp.stat, _fp.listdir, _fp.islink = saved
    api.obs((r1, r2, wd, list(log)))
    cover()
    if r2 == "ok":
        cover("done")
    if not (_valid(wd) and _valid(srv.workingDirectory)):
        return False
    if op != 0 and srv.workingDirectory != wd:      # only CWD moves the working directory
        return False
    for p in log:
        if not (isinstance(p, str) and _contained(p, False)):
            return False
    # the operation really reached the filesystem layer whenever it reported success
    return r2 != "ok" or len(log) > 0


_SHAPES = [(), (1,), (2,), (1, 1), (1, 2), (2, 1), (2, 2), (3,), (3, 1), (1, 3)]


def _shape_pre(shape):
    return ["len(cwd) == %d" % len(shape)] + ["len(cwd[%d]) == %d" % (i, k) for i, k in enumerate(shape)]


_PCLS = ["%s == '/'", "%s == '.'", "%s < '.'", "%s > '/'"]


def _seg_shards(tier):
    c = BOUNDS[tier]["c"]
    out = []
    for shape in _SHAPES:
        if any(k > c for k in shape):
            continue
        n = BOUNDS[tier]["n"] if not shape else BOUNDS[tier]["n"] - 1
        out.append(tuple(["len(path) <= %d" % (n - 2)] + _shape_pre(shape)))
        out.append(tuple(["len(path) == %d" % (n - 1)] + _shape_pre(shape)))
        if tier == "quick":
            out.append(tuple(["len(path) == %d" % n] + _shape_pre(shape)))
        else:
            out += [tuple(["len(path) == %d" % n, cl % "path[0]"] + _shape_pre(shape)) for cl in _PCLS]
    return out


def _sess_shards(tier):
    s = BOUNDS[tier]["s"]
    out = [("len(p1) + len(p2) <= %d" % (s - 2),)]
    out += [("len(p1) + len(p2) == %d" % (s - 1), "op == %d" % o) for o in range(6)]
    out += [("len(p1) == %d" % i, "len(p2) == %d" % (s - i), "op == %d" % o) for i in range(0, s + 1) for o in range(6)]
    return out


HARNESSES = [
    H(segments, shards=_seg_shards, labels=("end", "invalid"), timeout={"quick": 120, "thorough": 1500}),
    H(anonymous, shards=lambda tier: [("len(cwd) == 0",), ("len(cwd) == 1",)], timeout={"quick": 120, "thorough": 1500}),
    H(session, shards=_sess_shards, labels=("end", "done"), timeout={"quick": 120, "thorough": 1500}),
]

VECTORS = {
    "segments": [([], "a"), ([], ".."), (["a"], ".."), (["a", "b"], "../../.."), (["a"], "/"), ([], "a\x00b"),
                 (["x"], "../../abc"), ([], "/../abc"), (["a"], "b//c/./d"), ([], ""), (["a"], "..."), ([], "a\\..\\b")],
    "anonymous": [([], "a/b"), (["a"], "../.."), ([], "..")],
    "session": [("a", "b", 1), ("..", "x", 3), ("a/b", "../../..", 0), ("/", "../abc", 2),
                ("a", "/b", 4), ("a", "..", 5), ("\x00", "a", 1), ("a", "", 0)],
}


def selftest():
    return _c26.selftest()
