"""E6: a small symbolic interpreter turning integer Python (read from the *current* source with
inspect.getsource + ast on every run) into SMT terms.

Supported: straight-line / if-else method and function bodies over unbounded ints and bools
(+ - * % // ** by constants, comparisons incl. chains, and/or/not, abs/int/min/max/isinstance),
attribute reads/writes on instances of translated classes, calls of translated methods / functions /
constructors (inlined), operator dispatch to the translated dunder methods, `raise X(...)`,
`try/except X`, `return NotImplemented`.  Anything else becomes an `Unsupported` outcome on the
path where it occurs (so an obligation can only be discharged when such a path is infeasible).

The back end is a module with the z3 Python API (`z3` itself or `cvc5.pythonic`): every solver
builds its own terms from the same source.  Python's floor semantics of % and // are kept (SMT-LIB
`mod`/`div` are Euclidean: they agree with Python only for positive divisors).

    tr = Translator(z3, {"SerialNumber": PyClass(SerialNumber), "spec": PyFunc(spec)}, pow_hook=...)
    outs = tr.run("spec", [a, b, 8])           # -> [Outcome(pc=[...], kind='return'|'raise'|'unsupported', val)]
    tr.violation(outs)                          # Bool term: some path does not return True
"""
import ast
import builtins
import inspect
import textwrap


class Unsupported(Exception):
    pass


class Obj:
    """instance of a translated class: an identity token; its fields live in the path's heap"""
    _n = 0

    def __init__(self, cls):
        self.cls = cls
        Obj._n += 1
        self.oid = Obj._n


class ExcVal:
    def __init__(self, name):
        self.name = name


class _NotImpl:
    def __repr__(self):
        return "NotImplemented"


NOTIMPL = _NotImpl()


class PyFunc:
    def __init__(self, fn):
        self.name = fn.__name__
        src = textwrap.dedent(inspect.getsource(fn))
        self.node = ast.parse(src).body[0]
        assert isinstance(self.node, ast.FunctionDef)


class PyClass:
    def __init__(self, cls):
        self.name = cls.__name__
        self.pycls = cls
        src = textwrap.dedent(inspect.getsource(cls))
        node = ast.parse(src).body[0]
        assert isinstance(node, ast.ClassDef)
        self.node = node
        self.methods = {n.name: n for n in node.body if isinstance(n, ast.FunctionDef)}


class Outcome:
    def __init__(self, pc, kind, val, heap=None):
        self.pc = pc          # list of Bool terms (conjunction)
        self.kind = kind      # 'return' | 'raise' | 'unsupported'
        self.val = val        # value | exception name | reason
        self.heap = heap      # fields of returned objects


class _St:
    """one symbolic path: local environment + path condition + heap (object id -> fields)"""
    def __init__(self, env, pc, heap):
        self.env = env
        self.pc = pc
        self.heap = heap

    def fork(self, extra=None):
        st = _St(dict(self.env), list(self.pc), {k: dict(v) for k, v in self.heap.items()})
        if extra is not None:
            st.pc.append(extra)
        return st


class _Raise:
    def __init__(self, name):
        self.name = name


class _Unsup:
    def __init__(self, why):
        self.why = why


_CMP_DUNDER = {ast.Eq: "__eq__", ast.NotEq: "__ne__", ast.Lt: "__lt__", ast.LtE: "__le__",
               ast.Gt: "__gt__", ast.GtE: "__ge__"}
_BIN_DUNDER = {ast.Add: "__add__", ast.Sub: "__sub__", ast.Mult: "__mul__", ast.Mod: "__mod__"}
MAX_PATHS = 4000


class Translator:
    def __init__(self, z, globs, pow_hook=None, attr_hook=None):
        self.z = z
        self.globs = globs
        self.pow_hook = pow_hook
        # attr_hook(tr, obj, attr, env, why) -> value | None: called when the right-hand side of
        # `self.attr = <expr>` cannot be translated (floats, '/', ...); lets the caller supply the value
        # the REAL code computes for the concrete arguments in `env` (or None: stays unsupported)
        self.attr_hook = attr_hook
        self.paths = 0

    # ---- term helpers ------------------------------------------------------------------------
    def is_term(self, v):
        return self.z.is_expr(v)

    def is_boolterm(self, v):
        return self.z.is_expr(v) and self.z.is_bool(v)

    def is_intlike(self, v):
        return (isinstance(v, int) and not isinstance(v, bool)) or (self.z.is_expr(v) and self.z.is_int(v))

    def const(self, v):
        """python value of a term when it simplifies to a literal, else None"""
        z = self.z
        if isinstance(v, (bool, int)):
            return v
        if not z.is_expr(v):
            return None
        s = z.simplify(v)
        if z.is_bool(s):
            if z.is_true(s):
                return True
            if z.is_false(s):
                return False
            return None
        if z.is_int_value(s):
            return s.as_long()
        return None

    def truth(self, v):
        """python bool or Bool term for the truthiness of v"""
        z = self.z
        if isinstance(v, bool):
            return v
        if isinstance(v, int):
            return v != 0
        if v is None:
            return False
        if isinstance(v, (Obj, _NotImpl, ExcVal)):
            return True
        if z.is_expr(v):
            if z.is_bool(v):
                c = self.const(v)
                return v if c is None else c
            if z.is_int(v):
                c = self.const(v)
                return (v != 0) if c is None else (c != 0)
        raise Unsupported("truth value of %r" % (type(v).__name__,))

    def asint(self, v):
        """bools used as ints"""
        z = self.z
        if isinstance(v, bool):
            return int(v)
        if self.is_boolterm(v):
            return z.If(v, z.IntVal(1), z.IntVal(0))
        return v

    def conj(self, xs):
        z = self.z
        xs = [x for x in xs if x is not True]
        if any(x is False for x in xs):
            return z.BoolVal(False)
        if not xs:
            return z.BoolVal(True)
        return xs[0] if len(xs) == 1 else z.And(*xs)

    def bterm(self, v):
        return self.z.BoolVal(v) if isinstance(v, bool) else v

    # ---- python integer semantics ------------------------------------------------------------
    def pymod(self, a, b):
        """a % b for b != 0 with Python's sign-of-divisor semantics.  For a symbolic divisor the
        term is written with two exact range cases first (x in [0,b) -> x, [b,2b) -> x-b): same value,
        but linear on the ranges that matter."""
        z = self.z
        cb = self.const(b)
        if cb is not None:
            if isinstance(a, int):
                return a % cb
            if cb > 0:
                return a % cb
            return -((-a) % (-cb))
        pos = z.If(z.And(0 <= a, a < b), a, z.If(z.And(b <= a, a < 2 * b), a - b, a % b))
        neg = -((-a) % (-b))
        return z.If(b > 0, pos, neg)

    def pyfloordiv(self, a, b):
        z = self.z
        cb = self.const(b)
        if cb is not None:
            if isinstance(a, int):
                return a // cb
            if cb > 0:
                return a / cb
            return (a - self.pymod(a, cb)) / cb      # exact division
        raise Unsupported("floor division by a symbolic divisor")

    # ---- public API --------------------------------------------------------------------------
    def run(self, fname, args):
        """symbolically execute the translated function `fname` on argument values"""
        self.paths = 0
        f = self.globs[fname]
        st = _St({}, [], {})
        outs = []
        for st2, r in self.call_function(f.node, st, list(args), {}, None):
            if isinstance(r, _Raise):
                outs.append(Outcome(st2.pc, "raise", r.name))
            elif isinstance(r, _Unsup):
                outs.append(Outcome(st2.pc, "unsupported", r.why))
            else:
                outs.append(Outcome(st2.pc, "return", r, st2.heap))
        return outs

    def unsupported(self, outs):
        """(Bool term: some path ends in a construct that could not be translated, [reasons])"""
        z = self.z
        alts = [self.conj(list(o.pc)) for o in outs if o.kind == "unsupported"]
        why = sorted(set(str(o.val) for o in outs if o.kind == "unsupported"))
        if not alts:
            return None, []
        return (alts[0] if len(alts) == 1 else z.Or(*alts)), why

    def violation(self, outs):
        """Bool term: some path ends otherwise than by returning a true value"""
        z = self.z
        alts = []
        for o in outs:
            if o.kind == "return":
                try:
                    ok = self.truth(o.val)
                except Unsupported:
                    ok = False
                if isinstance(o.val, (Obj, _NotImpl, ExcVal)) or self.is_intlike(o.val):
                    ok = False       # obligations return booleans
            else:
                ok = False
            if ok is True:
                continue
            alts.append(self.conj(list(o.pc) + ([] if ok is False else [z.Not(ok)])))
        if not alts:
            return z.BoolVal(False)
        return alts[0] if len(alts) == 1 else z.Or(*alts)

    # ---- calls -------------------------------------------------------------------------------
    def call_function(self, fnode, st, args, kwargs, selfobj):
        """inline a FunctionDef; yields (state of the CALLER with the callee's path condition, result)"""
        a = fnode.args
        if a.vararg or a.kwarg or a.kwonlyargs or a.posonlyargs:
            return [(st, _Unsup("signature of %s" % fnode.name))]
        names = [x.arg for x in a.args]
        env = {}
        vals = ([selfobj] if selfobj is not None else []) + list(args)
        if len(vals) > len(names):
            return [(st, _Raise("TypeError"))]
        for n, v in zip(names, vals):
            env[n] = v
        for k, v in kwargs.items():
            if k not in names or k in env:
                return [(st, _Raise("TypeError"))]
            env[k] = v
        ndef = len(a.defaults)
        for i, d in enumerate(a.defaults):
            n = names[len(names) - ndef + i]
            if n not in env:
                if not isinstance(d, ast.Constant):
                    return [(st, _Unsup("non-constant default"))]
                env[n] = d.value
        for n in names:
            if n not in env:
                return [(st, _Raise("TypeError"))]
        inner = _St(env, list(st.pc), st.heap)
        res = []
        for st2, ctl in self.block(fnode.body, inner):
            caller = _St(dict(st.env), st2.pc, st2.heap)
            if ctl is None:
                res.append((caller, None))
            elif ctl[0] == "return":
                res.append((caller, ctl[1]))
            elif ctl[0] == "raise":
                res.append((caller, _Raise(ctl[1])))
            else:
                res.append((caller, _Unsup(ctl[1])))
        return res

    def _fork(self, st, extra):
        self.paths += 1
        if self.paths > MAX_PATHS:
            raise Unsupported("path explosion")
        return st.fork(extra)

    def split(self, st, cond):
        """-> list of (state, bool) for a python bool / Bool term condition"""
        if isinstance(cond, bool):
            return [(st, cond)]
        c = self.const(cond)
        if c is not None:
            return [(st, bool(c))]
        return [(self._fork(st, cond), True), (self._fork(st, self.z.Not(cond)), False)]

    def construct(self, cls, st, args, kwargs):
        o = Obj(cls)
        st.heap[o.oid] = {}
        init = cls.methods.get("__init__")
        if init is None:
            return [(st, o)] if not args and not kwargs else [(st, _Unsup("no __init__"))]
        out = []
        for st2, r in self.call_function(init, st, args, kwargs, o):
            out.append((st2, r if isinstance(r, (_Raise, _Unsup)) else o))
        return out

    def call_method(self, obj, name, st, args, kwargs=None):
        m = obj.cls.methods.get(name)
        if m is None:
            return None
        return self.call_function(m, st, args, kwargs or {}, obj)

    # ---- statements --------------------------------------------------------------------------
    def block(self, stmts, st):
        """-> list of (state, ctl) with ctl None | ('return', v) | ('raise', name) | ('unsup', why)"""
        states = [st]
        done = []
        for s in stmts:
            nxt = []
            for cur in states:
                try:
                    rs = self.stmt(s, cur)
                except Unsupported as e:
                    rs = [(cur, ("unsup", "%s (line %s)" % (e, getattr(s, "lineno", "?"))))]
                for st2, ctl in rs:
                    if ctl is None:
                        nxt.append(st2)
                    else:
                        done.append((st2, ctl))
            states = nxt
        return [(x, None) for x in states] + done

    def _lift(self, results, cont):
        """results: [(state, value|_Raise|_Unsup)]; continue with cont(state, value) on values"""
        out = []
        for st2, v in results:
            if isinstance(v, _Raise):
                out.append((st2, ("raise", v.name)))
            elif isinstance(v, _Unsup):
                out.append((st2, ("unsup", v.why)))
            else:
                out.extend(cont(st2, v))
        return out

    def stmt(self, s, st):
        if isinstance(s, ast.Expr):
            if isinstance(s.value, ast.Constant):
                return [(st, None)]
            return self._lift(self.ev(s.value, st), lambda st2, v: [(st2, None)])
        if isinstance(s, ast.Pass):
            return [(st, None)]
        if isinstance(s, (ast.Assign, ast.AnnAssign)):
            targets = s.targets if isinstance(s, ast.Assign) else [s.target]
            if s.value is None:
                return [(st, None)]

            def assign(st2, v):
                for t in targets:
                    if isinstance(t, ast.Name):
                        st2.env[t.id] = v
                    elif isinstance(t, ast.Attribute) and isinstance(t.value, ast.Name):
                        o = st2.env.get(t.value.id)
                        if not isinstance(o, Obj):
                            raise Unsupported("attribute store on non-object")
                        st2.heap[o.oid][t.attr] = v
                    else:
                        raise Unsupported("assignment target")
                return [(st2, None)]
            res = self.ev(s.value, st)
            if self.attr_hook is not None:
                fixed = []
                for st2, v in res:
                    if isinstance(v, _Unsup):
                        for t in targets:
                            if (isinstance(t, ast.Attribute) and isinstance(t.value, ast.Name)
                                    and isinstance(st2.env.get(t.value.id), Obj)):
                                r = self.attr_hook(self, st2.env[t.value.id], t.attr, st2.env, v.why)
                                if r is not None:
                                    v = r
                                    break
                    fixed.append((st2, v))
                res = fixed
            return self._lift(res, assign)
        if isinstance(s, ast.Return):
            if s.value is None:
                return [(st, ("return", None))]
            return self._lift(self.ev(s.value, st), lambda st2, v: [(st2, ("return", v))])
        if isinstance(s, ast.Raise):
            if s.exc is None or s.cause is not None:
                raise Unsupported("bare raise / raise from")
            e = s.exc
            if isinstance(e, ast.Call):
                e = e.func      # the message is not evaluated (formatting only)
            if isinstance(e, ast.Name) and self._exc_class(e.id) is not None:
                return [(st, ("raise", e.id))]
            raise Unsupported("raise of a non-literal exception")
        if isinstance(s, ast.If):
            def branch(st2, v):
                out = []
                for st3, c in self.split(st2, self.truth(v)):
                    out.extend(self.block(s.body if c else s.orelse, st3))
                return out
            return self._lift(self.ev(s.test, st), branch)
        if isinstance(s, ast.Try):
            if s.finalbody or s.orelse:
                raise Unsupported("try/else/finally")
            out = []
            for st2, ctl in self.block(s.body, st):
                if ctl is not None and ctl[0] == "raise":
                    h = self._handler(s.handlers, ctl[1])
                    if h is not None:
                        if h.name:
                            st2.env[h.name] = ExcVal(ctl[1])
                        out.extend(self.block(h.body, st2))
                        continue
                out.append((st2, ctl))
            return out
        if isinstance(s, ast.Assert):
            def chk(st2, v):
                out = []
                for st3, c in self.split(st2, self.truth(v)):
                    out.append((st3, None if c else ("raise", "AssertionError")))
                return out
            return self._lift(self.ev(s.test, st), chk)
        raise Unsupported("statement %s" % type(s).__name__)

    def _exc_class(self, name):
        c = getattr(builtins, name, None)
        if isinstance(c, type) and issubclass(c, BaseException):
            return c
        return None

    def _handler(self, handlers, raised):
        rc = self._exc_class(raised)
        for h in handlers:
            if h.type is None:
                return h
            types = h.type.elts if isinstance(h.type, ast.Tuple) else [h.type]
            for t in types:
                if isinstance(t, ast.Name):
                    hc = self._exc_class(t.id)
                    if hc is not None and rc is not None and issubclass(rc, hc):
                        return h
        return None

    # ---- expressions -------------------------------------------------------------------------
    def ev_list(self, nodes, st):
        """evaluate expressions left to right -> [(state, [values]) | (state, _Raise/_Unsup)]"""
        res = [(st, [])]
        for n in nodes:
            nxt = []
            for st2, vals in res:
                if isinstance(vals, (_Raise, _Unsup)):
                    nxt.append((st2, vals))
                    continue
                for st3, v in self.ev(n, st2):
                    if isinstance(v, (_Raise, _Unsup)):
                        nxt.append((st3, v))
                    else:
                        nxt.append((st3, list(vals) + [v]))
            res = nxt
        return res

    def ev(self, n, st):
        try:
            return self._ev(n, st)
        except Unsupported as e:
            return [(st, _Unsup("%s (line %s)" % (e, getattr(n, "lineno", "?"))))]

    def _ev(self, n, st):
        z = self.z
        if isinstance(n, ast.Constant):
            if isinstance(n.value, (bool, int, str)) or n.value is None:
                return [(st, n.value)]
            raise Unsupported("constant %r" % (n.value,))
        if isinstance(n, ast.Name):
            if n.id in st.env:
                return [(st, st.env[n.id])]
            if n.id in self.globs:
                return [(st, self.globs[n.id])]
            if n.id == "NotImplemented":
                return [(st, NOTIMPL)]
            if self._exc_class(n.id) is not None:
                return [(st, ExcVal(n.id))]
            raise Unsupported("name %s" % n.id)
        if isinstance(n, ast.Attribute):
            def attr(st2, v):
                if isinstance(v, Obj):
                    if n.attr in st2.heap[v.oid]:
                        return [(st2, st2.heap[v.oid][n.attr])]
                    return [(st2, _Raise("AttributeError"))]
                if v is NOTIMPL or v is None or self.is_term(v) or isinstance(v, (int, bool)):
                    return [(st2, _Raise("AttributeError"))]
                raise Unsupported("attribute of %s" % type(v).__name__)
            return self._vlift(self.ev(n.value, st), attr)
        if isinstance(n, ast.UnaryOp):
            def un(st2, v):
                if isinstance(n.op, ast.Not):
                    t = self.truth(v)
                    return [(st2, (not t) if isinstance(t, bool) else z.Not(t))]
                if isinstance(n.op, ast.USub) and (self.is_intlike(v) or isinstance(v, bool)):
                    return [(st2, -self.asint(v))]
                if isinstance(n.op, ast.UAdd) and self.is_intlike(v):
                    return [(st2, v)]
                raise Unsupported("unary op")
            return self._vlift(self.ev(n.operand, st), un)
        if isinstance(n, ast.BoolOp):
            return self._boolop(n, st)
        if isinstance(n, ast.Compare):
            return self._compare(n, st)
        if isinstance(n, ast.BinOp):
            def bin_(st2, vals):
                return self._binop(n.op, vals[0], vals[1], st2)
            return self._vlift(self.ev_list([n.left, n.right], st), bin_)
        if isinstance(n, ast.IfExp):
            def ife(st2, v):
                out = []
                for st3, c in self.split(st2, self.truth(v)):
                    out.extend(self.ev(n.body if c else n.orelse, st3))
                return out
            return self._vlift(self.ev(n.test, st), ife)
        if isinstance(n, ast.Call):
            return self._call(n, st)
        if isinstance(n, ast.Tuple):
            return self._vlift(self.ev_list(n.elts, st), lambda st2, vals: [(st2, tuple(vals))])
        raise Unsupported("expression %s" % type(n).__name__)

    def _vlift(self, results, cont):
        out = []
        for st2, v in results:
            if isinstance(v, (_Raise, _Unsup)):
                out.append((st2, v))
            else:
                try:
                    out.extend(cont(st2, v))
                except Unsupported as e:
                    out.append((st2, _Unsup(str(e))))
        return out

    def _boolop(self, n, st):
        """`and`/`or` with Python's short circuit: the right operand is only evaluated (and may only
        raise) on the paths where the left one does not decide"""
        z = self.z
        is_and = isinstance(n.op, ast.And)

        def rest(st2, left, nodes):
            if not nodes:
                return [(st2, left)]
            t = self.truth(left)
            if isinstance(t, bool):
                if t == is_and:
                    return self._vlift(self.ev(nodes[0], st2), lambda st3, v: rest(st3, v, nodes[1:]))
                return [(st2, left)]
            # symbolic: try the pure case first (right side has one, non-raising, boolean outcome)
            probe = st2.fork(t if is_and else z.Not(t))
            try:
                saved = self.paths
                rs = self._vlift(self.ev(nodes[0], probe), lambda st3, v: rest(st3, v, nodes[1:]))
            except Unsupported:
                rs = None
            if rs is not None and len(rs) == 1 and not isinstance(rs[0][1], (_Raise, _Unsup)):
                rv = rs[0][1]
                if isinstance(rv, bool) or self.is_boolterm(rv):
                    if isinstance(left, bool) or self.is_boolterm(left):
                        self.paths = saved
                        comb = z.And(t, self.bterm(rv)) if is_and else z.Or(t, self.bterm(rv))
                        return [(st2, comb)]
            out = []
            for st3, c in self.split(st2, t):
                if c == is_and:
                    out.extend(self._vlift(self.ev(nodes[0], st3), lambda st4, v: rest(st4, v, nodes[1:])))
                else:
                    out.append((st3, c if (isinstance(left, bool) or self.is_boolterm(left)) else left))
            return out
        return self._vlift(self.ev(n.values[0], st), lambda st2, v: rest(st2, v, n.values[1:]))

    def _cmp_values(self, op, a, b, st):
        """one comparison -> [(state, value)]"""
        z = self.z
        if isinstance(a, Obj) or isinstance(b, Obj):
            if isinstance(op, (ast.Is, ast.IsNot)):
                same = a is b
                return [(st, same if isinstance(op, ast.Is) else not same)]
            name = _CMP_DUNDER.get(type(op))
            if name is None:
                raise Unsupported("comparison operator on objects")
            out = []
            if isinstance(a, Obj) and (name in a.cls.methods):
                for st2, r in self.call_method(a, name, st, [b]):
                    if r is NOTIMPL:
                        out.append((st2, _Unsup("NotImplemented from %s (reflected operand not modelled)" % name)))
                    else:
                        out.append((st2, r))
                return out
            raise Unsupported("no %s on %s" % (name, type(a).__name__))
        if isinstance(op, (ast.Is, ast.IsNot)):
            if b is None or a is None or a is NOTIMPL or b is NOTIMPL:
                same = a is b
                return [(st, same if isinstance(op, ast.Is) else not same)]
            raise Unsupported("`is` on values")
        if a is None or b is None or a is NOTIMPL or b is NOTIMPL:
            if isinstance(op, ast.Eq):
                return [(st, a is b)]
            if isinstance(op, ast.NotEq):
                return [(st, a is not b)]
            return [(st, _Raise("TypeError"))]
        boolish = lambda v: isinstance(v, bool) or self.is_boolterm(v)  # noqa
        if boolish(a) and boolish(b) and isinstance(op, (ast.Eq, ast.NotEq)):
            if isinstance(a, bool) and isinstance(b, bool):
                return [(st, (a == b) if isinstance(op, ast.Eq) else (a != b))]
            r = self.bterm(a) == self.bterm(b)
            return [(st, r if isinstance(op, ast.Eq) else z.Not(r))]
        a, b = self.asint(a), self.asint(b)
        if not (self.is_intlike(a) and self.is_intlike(b)):
            raise Unsupported("comparison of %s and %s" % (type(a).__name__, type(b).__name__))
        if isinstance(op, ast.Eq):
            r = a == b
        elif isinstance(op, ast.NotEq):
            r = a != b
        elif isinstance(op, ast.Lt):
            r = a < b
        elif isinstance(op, ast.LtE):
            r = a <= b
        elif isinstance(op, ast.Gt):
            r = a > b
        elif isinstance(op, ast.GtE):
            r = a >= b
        else:
            raise Unsupported("comparison operator")
        c = self.const(r)
        return [(st, r if c is None else c)]

    def _compare(self, n, st):
        z = self.z
        if len(n.ops) == 1:
            return self._vlift(self.ev_list([n.left, n.comparators[0]], st),
                               lambda st2, vals: self._cmp_values(n.ops[0], vals[0], vals[1], st2))

        # chain a op b op c: all operands here are pure ints (objects in chains are not modelled)
        def chain(st2, vals):
            parts = []
            for i, op in enumerate(n.ops):
                if isinstance(vals[i], Obj) or isinstance(vals[i + 1], Obj):
                    raise Unsupported("comparison chain on objects")
                rs = self._cmp_values(op, vals[i], vals[i + 1], st2)
                if len(rs) != 1 or isinstance(rs[0][1], (_Raise, _Unsup)):
                    raise Unsupported("comparison chain")
                parts.append(rs[0][1])
            if all(isinstance(p, bool) for p in parts):
                return [(st2, all(parts))]
            return [(st2, self.conj(parts))]
        return self._vlift(self.ev_list([n.left] + list(n.comparators), st), chain)

    def _binop(self, op, a, b, st):
        z = self.z
        if isinstance(a, Obj):
            name = _BIN_DUNDER.get(type(op))
            if name is None or name not in a.cls.methods:
                raise Unsupported("binary operator on object")
            out = []
            for st2, r in self.call_method(a, name, st, [b]):
                if r is NOTIMPL:
                    out.append((st2, _Raise("TypeError")) if not isinstance(b, Obj)
                               else (st2, _Unsup("NotImplemented from %s" % name)))
                else:
                    out.append((st2, r))
            return out
        if isinstance(a, str) or isinstance(b, str):
            raise Unsupported("string operator")
        a, b = self.asint(a), self.asint(b)
        if not (self.is_intlike(a) and self.is_intlike(b)):
            raise Unsupported("operator on %s, %s" % (type(a).__name__, type(b).__name__))
        conc = isinstance(a, int) and isinstance(b, int)
        if isinstance(op, ast.Add):
            return [(st, a + b)]
        if isinstance(op, ast.Sub):
            return [(st, a - b)]
        if isinstance(op, ast.Mult):
            return [(st, a * b)]
        if isinstance(op, ast.Pow):
            cb = self.const(b)
            ca = self.const(a)
            if ca is not None and cb is not None:
                if cb < 0:
                    raise Unsupported("negative exponent (float result)")
                return [(st, ca ** cb)]
            if self.pow_hook is not None:
                r = self.pow_hook(self, a, b)
                if r is not None:
                    return [(st, r)]
            raise Unsupported("symbolic exponentiation")
        if isinstance(op, (ast.Mod, ast.FloorDiv)):
            if conc:
                if b == 0:
                    return [(st, _Raise("ZeroDivisionError"))]
                return [(st, a % b if isinstance(op, ast.Mod) else a // b)]
            out = []
            for st2, zero in self.split(st, self.truth(self._cmp_values(ast.Eq(), b, 0, st)[0][1])):
                if zero:
                    out.append((st2, _Raise("ZeroDivisionError")))
                else:
                    out.append((st2, self.pymod(a, b) if isinstance(op, ast.Mod) else self.pyfloordiv(a, b)))
            return out
        raise Unsupported("operator %s" % type(op).__name__)

    def _call(self, n, st):
        z = self.z
        kwnames = [k.arg for k in n.keywords]
        if any(k is None for k in kwnames) or any(isinstance(a, ast.Starred) for a in n.args):
            raise Unsupported("star arguments")
        f = n.func
        # method call on an object
        if isinstance(f, ast.Attribute):
            def meth(st2, vals):
                recv, args = vals[0], vals[1:len(n.args) + 1]
                kw = dict(zip(kwnames, vals[len(n.args) + 1:]))
                if not isinstance(recv, Obj):
                    raise Unsupported("method call on %s" % type(recv).__name__)
                out = self.call_method(recv, f.attr, st2, args, kw)
                if out is None:
                    raise Unsupported("unknown method %s" % f.attr)
                return out
            return self._vlift(self.ev_list([f.value] + list(n.args) + [k.value for k in n.keywords], st), meth)
        if not isinstance(f, ast.Name):
            raise Unsupported("call target")
        name = f.id
        if name not in st.env and self._exc_class(name) is not None and name not in self.globs:
            return [(st, ExcVal(name))]     # exception construction: message not evaluated

        def fn(st2, vals):
            args = vals[:len(n.args)]
            kw = dict(zip(kwnames, vals[len(n.args):]))
            target = st2.env.get(name, self.globs.get(name))
            if isinstance(target, PyClass):
                return self.construct(target, st2, args, kw)
            if isinstance(target, PyFunc):
                return self.call_function(target.node, st2, args, kw, None)
            if kw:
                raise Unsupported("keywords for builtin %s" % name)
            if name == "int" and len(args) == 1 and isinstance(args[0], Obj) and "__int__" in args[0].cls.methods:
                return self.call_method(args[0], "__int__", st2, [])
            if name == "int" and len(args) == 1 and (self.is_intlike(args[0]) or isinstance(args[0], bool)
                                                      or self.is_boolterm(args[0])):
                return [(st2, self.asint(args[0]))]
            if name == "bool" and len(args) == 1:
                return [(st2, self.truth(args[0]))]
            if name == "abs" and len(args) == 1 and self.is_intlike(args[0]):
                a = args[0]
                return [(st2, abs(a) if isinstance(a, int) else z.If(a >= 0, a, -a))]
            if name in ("min", "max") and len(args) == 2 and all(self.is_intlike(a) for a in args):
                a, b = args
                if isinstance(a, int) and isinstance(b, int):
                    return [(st2, min(a, b) if name == "min" else max(a, b))]
                return [(st2, z.If(a <= b, a, b) if name == "min" else z.If(a >= b, a, b))]
            if name == "isinstance" and len(args) == 2:
                v, c = args
                if isinstance(c, PyClass):
                    if isinstance(v, Obj):
                        return [(st2, v.cls is c or (isinstance(v.cls.pycls, type) and issubclass(v.cls.pycls, c.pycls)))]
                    return [(st2, False)]
                raise Unsupported("isinstance against an untranslated class")
            raise Unsupported("call of %s" % name)
        return self._vlift(self.ev_list(list(n.args) + [k.value for k in n.keywords], st), fn)


# ---- solving ---------------------------------------------------------------------------------

def check(z, constraints, timeout_ms=60000):
    """-> ('unsat'|'sat'|'unknown', model-or-None)"""
    s = z.Solver()
    try:
        if z.__name__ == "z3":
            s.set("timeout", int(timeout_ms))
        else:
            s.setOption("tlimit-per", str(int(timeout_ms)))
    except Exception:  # noqa
        pass
    for c in constraints:
        s.add(c)
    try:
        r = s.check()
    except Exception as e:  # noqa
        return "unknown: %s" % type(e).__name__, None
    if r == z.unsat:
        return "unsat", None
    if r == z.sat:
        return "sat", s.model()
    return "unknown", None


def model_int(z, model, var):
    v = model.eval(var, True) if z.__name__ == "z3" else model.eval(var)
    return v.as_long()
