"""E2: the L1 lift.  Recompile real twisted source (read from /repo at run time) so that bytes
literals become LBytes and byte-handling builtins resolve to the shims in vlib.lbytes.

lift(modname, names=None, overrides=None, call_shims=..., keep_real=False)
  names=None  -> the whole module is lifted (executed in a fresh namespace)
  names=[...] -> only those top-level classes/functions/assignments are recompiled, in a namespace that
                 starts as a copy of the real module's globals (everything else is the real object)
  overrides   -> names forced in the namespace (e.g. an already lifted base class / module); for a
                 whole-module lift they are re-bound right after the import statement that binds them
In 'real' mode (replay / validation) lift() returns the real module namespace unchanged, so the same
harness runs against the unlifted code on real bytes.
"""
import ast
import importlib
import os
import types

from vlib import api, lbytes

_CALL_SHIMS = {"int": "_vl_int", "bytes": "_vl_bytes", "memoryview": "_vl_memoryview"}


class _Lift(ast.NodeTransformer):
    def __init__(self, call_shims, encode_calls=False):
        self.call_shims = call_shims
        self.encode_calls = encode_calls

    def visit_Constant(self, node):
        if isinstance(node.value, bytes):
            return ast.copy_location(
                ast.Call(ast.Name("__LB__", ast.Load()), [ast.Constant(node.value.decode("latin-1"))], []), node)
        return node

    def visit_Call(self, node):
        self.generic_visit(node)
        if isinstance(node.func, ast.Name) and node.func.id in self.call_shims:
            node.func = ast.copy_location(ast.Name(self.call_shims[node.func.id], ast.Load()), node.func)
        elif (self.encode_calls and isinstance(node.func, ast.Attribute) and node.func.attr == "encode"):
            # x.encode(enc...) -> _vl_encode(x, enc...)   (text -> LBytes)
            return ast.copy_location(
                ast.Call(ast.Name("_vl_encode", ast.Load()), [node.func.value] + node.args, node.keywords), node)
        return node

    fstrings = False

    def visit_JoinedStr(self, node):
        if not self.fstrings:
            return node  # f-strings are text
        # f"..{v:spec}.." -> _vl_fstr("..", _vl_fval(v, conversion, "spec"), "..") so that formatting a
        # symbolic int does not realise it (lbytes.l_fval does fixed-radix arithmetic instead)
        parts = []
        for p in node.values:
            if isinstance(p, ast.FormattedValue):
                spec = p.format_spec
                if spec is None:
                    spec = ast.Constant("")
                elif isinstance(spec, ast.JoinedStr):
                    spec = self.visit_JoinedStr(spec)
                parts.append(ast.Call(ast.Name("_vl_fval", ast.Load()),
                                      [self.visit(p.value), ast.Constant(p.conversion), spec], []))
            else:
                parts.append(p)
        return ast.copy_location(ast.Call(ast.Name("_vl_fstr", ast.Load()), parts, []), node)

    def visit_MatchValue(self, node):
        return node

    bitops = False
    _BITOPS = {ast.BitAnd: "_vl_bitand", ast.BitOr: "_vl_bitor", ast.BitXor: "_vl_bitxor",
               ast.LShift: "_vl_shl", ast.RShift: "_vl_shr"}

    def visit_BinOp(self, node):
        # a & b, a | b, a ^ b, a << n, a >> n -> arithmetic shims (CrossHair's symbolic ints go through
        # bit-vector conversions for these, which z3 does not finish); non-int operands fall through
        self.generic_visit(node)
        if self.bitops and type(node.op) in self._BITOPS:
            return ast.copy_location(
                ast.Call(ast.Name(self._BITOPS[type(node.op)], ast.Load()), [node.left, node.right], []), node)
        return node


def _shim_ns():
    return {
        "__LB__": lbytes.LBytes, "bytes": lbytes.LBytes, "bytearray": lbytes.LBuf,
        "_vl_int": lbytes.l_int, "_vl_bytes": lbytes.l_bytes, "_vl_memoryview": lbytes.l_memoryview,
        "_vl_encode": _l_encode, "struct": lbytes.l_struct, "BytesIO": lbytes.LBytesIO,
        "_vl_fstr": lbytes.l_fstr, "_vl_fval": lbytes.l_fval,
        "_vl_bitand": lbytes.l_bitand, "_vl_bitor": lbytes.l_bitor, "_vl_bitxor": lbytes.l_bitxor,
        "_vl_shl": lbytes.l_shl, "_vl_shr": lbytes.l_shr,
    }


def _l_encode(x, *a, **k):
    if isinstance(x, str):
        return lbytes.encode_text(x, *a, **k)
    return x.encode(*a, **k)


def _bound_names(stmt):
    out = []
    if isinstance(stmt, ast.Import):
        for al in stmt.names:
            out.append((al.asname or al.name).split(".")[0])
    elif isinstance(stmt, ast.ImportFrom):
        for al in stmt.names:
            out.append(al.asname or al.name)
    return out


class _NS(types.SimpleNamespace):
    pass


def lift(modname, names=None, overrides=None, call_shims=None, encode_calls=False, use_re=False,
         extra_shims=None, fstrings=False, bitops=False):
    mod = importlib.import_module(modname)
    if api.MODE == "real":
        ns = _NS(**{k: v for k, v in mod.__dict__.items() if not k.startswith("__")})
        ns.__real__ = True
        return ns
    shims = dict(_CALL_SHIMS)
    if call_shims is not None:
        shims = call_shims
    src = open(mod.__file__).read()
    tree = ast.parse(src)
    ov = dict(overrides or {})
    lf = _Lift(shims, encode_calls)
    lf.fstrings = fstrings
    lf.bitops = bitops
    sh = _shim_ns()
    if use_re:
        sh["re"] = lbytes.l_re
    if extra_shims:
        sh.update(extra_shims)
    if names is None:
        body = []
        for stmt in tree.body:
            if isinstance(stmt, ast.ImportFrom) and stmt.module == "__future__":
                body.append(stmt)
                continue
            body.append(lf.visit(stmt))
            for nm in _bound_names(stmt):
                if nm in ov or nm in sh:
                    body.append(ast.Assign([ast.Name(nm, ast.Store())],
                                           ast.Subscript(ast.Name("__OVR__", ast.Load()), ast.Constant(nm), ast.Load())))
        newtree = ast.Module(body=body, type_ignores=[])
        ns = {"__name__": modname, "__file__": mod.__file__, "__package__": mod.__package__,
              "__builtins__": __builtins__}
        allov = dict(sh)
        allov.update(ov)
        ns["__OVR__"] = allov
        ns.update(allov)
    else:
        keep = []
        want = set(names)
        for stmt in tree.body:
            nm = []
            if isinstance(stmt, (ast.FunctionDef, ast.ClassDef, ast.AsyncFunctionDef)):
                nm = [stmt.name]
            elif isinstance(stmt, ast.Assign):
                nm = [t.id for t in stmt.targets if isinstance(t, ast.Name)]
            elif isinstance(stmt, ast.AnnAssign) and isinstance(stmt.target, ast.Name):
                nm = [stmt.target.id]
            if nm and any(n in want for n in nm):
                keep.append(lf.visit(stmt))
                want -= set(nm)
        if want:
            raise KeyError("lift: %s has no top-level %s" % (modname, sorted(want)))
        newtree = ast.Module(body=keep, type_ignores=[])
        ns = dict(mod.__dict__)
        ns.update(sh)
        ns.update(ov)
    ast.fix_missing_locations(newtree)
    code = compile(newtree, mod.__file__, "exec", dont_inherit=True,
                   flags=_future_flags(tree))
    exec(code, ns)
    out = _NS(**{k: v for k, v in ns.items() if not (k.startswith("__") and k.endswith("__"))})
    out.__ns__ = ns
    out.__real__ = False
    return out


def _future_flags(tree):
    import __future__
    flags = 0
    for stmt in tree.body:
        if isinstance(stmt, ast.ImportFrom) and stmt.module == "__future__":
            for al in stmt.names:
                flags |= getattr(__future__, al.name).compiler_flag
    return flags


# ---- the two worlds ---------------------------------------------------------------------------

def b(text):
    """harness text -> bytes value of the current world"""
    if api.MODE == "real":
        return text.encode("latin-1")
    return lbytes.LBytes(text)


def t(x):
    """bytes-like value of the current world -> latin-1 text"""
    if x is None:
        return None
    if isinstance(x, str):
        return "T:" + x
    return lbytes._s(x)


def tl(xs):
    return [t(x) for x in xs]
