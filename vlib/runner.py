"""Orchestration: harness shards -> worker processes -> verdicts -> replay -> evidence."""
import concurrent.futures as cf
import hashlib
import importlib
import inspect
import json
import os
import subprocess
import sys
import time

from vlib import api

HOME = os.environ.get("VERIF_HOME", "/verif")
REPO = os.environ.get("VERIF_REPO", "/repo")
NPROC = int(os.environ.get("VERIF_NPROC", "16"))
PY = sys.executable


def _last_json(text):
    for ln in reversed(text.strip().splitlines()):
        ln = ln.strip()
        if ln.startswith("{") and ln.endswith("}"):
            try:
                return json.loads(ln)
            except ValueError:
                continue
    return None


def _run_worker(modname, hname, tier, kind, which, extra, wall):
    env = dict(os.environ)
    env["PYTHONPATH"] = HOME + ":" + REPO + "/src"
    cmd = [PY, "-m", "vlib.worker", modname, hname, tier, kind, str(which), json.dumps(extra)]
    t0 = time.time()
    try:
        p = subprocess.run(cmd, capture_output=True, text=True, timeout=wall, env=env, cwd=HOME)
        r = _last_json(p.stdout)
        if r is None:
            r = {"status": "error", "error": "no result: rc=%s stderr=%s" % (p.returncode, p.stderr[-1500:])}
    except subprocess.TimeoutExpired:
        r = {"status": "unknown", "error": "wall timeout %ss" % wall, "paths": 0}
    r.setdefault("harness", hname)
    r.setdefault("kind", kind)
    r.setdefault("which", which)
    r["wall_s"] = round(time.time() - t0, 2)
    return r


def _run_custom(modname, cname, tier, wall):
    env = dict(os.environ)
    env["PYTHONPATH"] = HOME + ":" + REPO + "/src"
    env["VERIF_MODE"] = "sym"
    env["VERIF_TIER"] = tier
    code = ("import importlib, json, sys; m = importlib.import_module(%r); "
            "from vlib import api; api.apply_bounds(m, %r); "
            "r = {c.__name__: c for c in m.CUSTOM}[%r](%r); "
            "sys.stdout.write('\\n' + json.dumps(r) + '\\n')") % (modname, tier, cname, tier)
    t0 = time.time()
    try:
        p = subprocess.run([PY, "-c", code], capture_output=True, text=True, timeout=wall, env=env, cwd=HOME)
        r = _last_json(p.stdout)
        if r is None:
            r = {"status": "error", "error": "no result: rc=%s stderr=%s" % (p.returncode, p.stderr[-2500:])}
    except subprocess.TimeoutExpired:
        r = {"status": "unknown", "error": "wall timeout"}
    r["harness"] = cname
    r["kind"] = "custom"
    r["wall_s"] = round(time.time() - t0, 2)
    return r


def replay_file(path, mode="real"):
    env = dict(os.environ)
    env["PYTHONPATH"] = HOME + ":" + REPO + "/src"
    env["VERIF_MODE"] = mode
    venv_py = PY
    p = subprocess.run([venv_py, "-m", "vlib.replay", path], capture_output=True, text=True,
                       timeout=300, env=env, cwd=HOME)
    r = _last_json(p.stdout)
    if r is None:
        r = {"reproduced": False, "detail": "replay crashed: " + p.stderr[-800:], "crashed": True}
    return r


def _write_replay(pid, modname, hname, tier, args):
    os.makedirs(os.path.join(HOME, "replays"), exist_ok=True)
    rec = {"property": pid, "module": modname, "harness": hname, "tier": tier, "args": args}
    blob = json.dumps(rec, sort_keys=True)
    path = os.path.join(HOME, "replays", "%s-%s.json" % (pid, hashlib.sha256(blob.encode()).hexdigest()[:12]))
    with open(path, "w") as f:
        f.write(blob)
    return path


def load_known(pid):
    path = os.path.join(HOME, "KNOWN_FINDINGS.json")
    if not os.path.exists(path):
        return []
    return [e for e in json.load(open(path))["findings"] if e["property"] == pid]


def _validate_vectors(modname, tier):
    """Run mod.VECTORS through the harness functions concretely in 'real' mode (real bytes, real
    code) and in 'sym' mode (lifted code on concrete LBytes) and compare results and obs logs."""
    code = ("import importlib, json, sys, os; from vlib import api; m = importlib.import_module(%r); "
            "api.apply_bounds(m, %r); out = []\n"
            "for name, vecs in getattr(m, 'VECTORS', {}).items():\n"
            "    fn = api.harness_map(m)[name].fn if name in api.harness_map(m) else getattr(m, name)\n"
            "    for v in vecs:\n"
            "        del api.OBS[:]\n"
            "        try: r = repr(fn(*v))\n"
            "        except Exception as e: r = 'raised ' + type(e).__name__ + ': ' + str(e)[:200]\n"
            "        out.append([name, repr(v), r, repr(api.OBS)])\n"
            "extra = getattr(m, 'selftest', None)\n"
            "n = extra() if extra else 0\n"
            "sys.stdout.write('\\n' + json.dumps({'out': out, 'selftest': n}) + '\\n')") % (modname, tier)
    res = {}
    for mode in ("real", "sym"):
        env = dict(os.environ)
        env["PYTHONPATH"] = HOME + ":" + REPO + "/src"
        env["VERIF_MODE"] = mode
        env["VERIF_TIER"] = tier
        p = subprocess.run([PY, "-c", code], capture_output=True, text=True, timeout=900, env=env, cwd=HOME)
        r = _last_json(p.stdout)
        if r is None:
            return {"ok": False, "cases": 0, "detail": "validation crashed in mode %s: %s" % (mode, p.stderr[-2500:])}
        res[mode] = r
    a, b = res["real"]["out"], res["sym"]["out"]
    bad = [(x, y) for x, y in zip(a, b) if x != y]
    false_real = [x for x in a if x[2] != "True"]
    detail = ""
    if bad:
        detail = "lifted and real runs disagree: %r" % (bad[:3],)
    return {"ok": not bad, "cases": len(a), "selftest_cases": res["sym"].get("selftest", 0) or 0,
            "detail": detail, "failing_real": false_real[:5]}


def run_property(modname, tier, seed=0):
    t0 = time.time()
    mod = importlib.import_module(modname)
    api.apply_bounds(mod, tier)
    pid = mod.PROPERTY
    known = load_known(pid)
    open_known = [k for k in known if k.get("status") == "open"]
    excl = getattr(mod, "EXCLUDE", {})
    extra_for = {}  # harness name -> list of exclusion preconditions
    for k in open_known:
        for hname, pre in excl.get(k["key"], {}).items():
            extra_for.setdefault(hname, []).append(pre)

    tasks = []
    for h in mod.HARNESSES:
        if tier not in h.tiers:
            continue
        for si, _ in enumerate(h.shards(tier)):
            tasks.append(("main", h, si))
        for lab in h.labels:
            tasks.append(("reach", h, lab))
    customs = [c for c in getattr(mod, "CUSTOM", [])]
    if os.environ.get("VERIF_DRY") == "1":
        # machinery smoke test (tools/smoke.sh): shard generation, vector validation in both worlds
        # and the known-finding witnesses only; no solver task is run and nothing is claimed
        lines_dry = "dry run: %d solver tasks and %d custom tasks not run" % (len(tasks), len(customs))
        tasks, customs = [], []
    else:
        lines_dry = None

    results = []
    lines = []
    with cf.ThreadPoolExecutor(NPROC) as ex:
        futs = []
        for kind, h, which in tasks:
            tmo = h.tmo(tier) if kind == "main" else h.reach_timeout
            futs.append(ex.submit(_run_worker, modname, h.name, tier, kind, which,
                                  extra_for.get(h.name, []), tmo * 2.5 + 60))
        for c in customs:
            futs.append(ex.submit(_run_custom, modname, c.__name__, tier,
                                  getattr(c, "wall", {"quick": 300, "thorough": 3600})[tier]))
        vfut = ex.submit(_validate_vectors, modname, tier)
        for f in futs:
            results.append(f.result())
        validation = vfut.result()

    violations = []
    harness_errors = []
    known_lines = []
    if lines_dry:
        lines.append(lines_dry)

    # known findings: replay the recorded witness against the current tree
    for k in open_known:
        w = k.get("witness")
        if w:
            path = _write_replay(pid, modname, w["harness"], tier, w["args"])
            rr = replay_file(path)
            if rr.get("reproduced"):
                known_lines.append("KNOWN-FINDING: property=%s %s" % (pid, k["what"]))
            else:
                lines.append("note: known finding %s no longer reproduces (%s)" % (k["key"], rr.get("detail")))

    if not validation["ok"]:
        harness_errors.append("translator validation failed: " + validation["detail"])
    for fr in validation.get("failing_real", []):
        # a concrete vector on which the property function fails on the real code: that is a
        # violation found by the validation corpus; report through the same replay path
        harness_errors.append("validation vector fails on real code: %r" % (fr,))

    n_main = n_conf = n_unknown = 0
    for r in results:
        st = r.get("status")
        if r["kind"] == "reach":
            if st != "refuted":
                harness_errors.append("reachability twin %s[%s] not reached: %s %s" % (
                    r["harness"], r["which"], st, (r.get("error") or r.get("messages"))))
            continue
        n_main += 1
        if st == "confirmed":
            n_conf += 1
        elif st in ("unknown",):
            n_unknown += 1
        elif st == "pre_unsat":
            harness_errors.append("%s[%s]: unable to meet precondition" % (r["harness"], r.get("which")))
        elif st == "error":
            harness_errors.append("%s[%s]: %s" % (r["harness"], r.get("which"), r.get("error") or r.get("messages")))
        elif st == "refuted":
            cex = r.get("cex")
            rh = r.get("replay_harness", r["harness"])
            if not cex or "__capture_error__" in cex:
                harness_errors.append("%s[%s]: counterexample could not be captured: %s" % (
                    r["harness"], r.get("which"), r.get("messages")))
                continue
            path = _write_replay(pid, modname, rh, tier, cex)
            rr = replay_file(path)
            r["replay"] = rr
            r["replay_path"] = path
            if rr.get("reproduced"):
                key = None
                cl = getattr(mod, "classify", None)
                if cl:
                    try:
                        key = cl(rh, {k: api.dec(v) for k, v in cex.items()})
                    except Exception:
                        key = None
                ok = [k for k in open_known if k["key"] == key]
                if ok:
                    known_lines.append("KNOWN-FINDING: property=%s %s" % (pid, ok[0]["what"]))
                else:
                    violations.append((path, r, rr))
            else:
                harness_errors.append("%s[%s]: counterexample %r did not reproduce on the real code (%s): %s" % (
                    r["harness"], r.get("which"), cex, rr.get("detail"),
                    [m["message"][:300] for m in r.get("messages", [])]))

    # ---- evidence -------------------------------------------------------------------------
    paths = sum(int(r.get("paths", 0) or 0) for r in results if r["kind"] == "main")
    nontriv = 0
    for r in results:
        if r["kind"] == "main":
            hits = r.get("hits") or {}
            nontriv += max(hits.values()) if hits else 0
            nontriv += int(r.get("nontrivial", 0) or 0)
    samples = []
    for r in results:
        if r["kind"] == "reach" and r.get("cex"):
            samples.append({"harness": r["harness"], "reaches": r["which"], "args": r["cex"]})
        if r["kind"] == "custom":
            for s in r.get("samples", [])[:3]:
                samples.append({"harness": r["harness"], "obligation": s})
    for r in results:
        if r["kind"] == "main" and r.get("cex"):
            samples.append({"harness": r["harness"], "counterexample": r["cex"]})
    samples = samples[:12]
    obligations = sum(int(r.get("obligations", 0) or 0) for r in results if r["kind"] == "custom")
    discharged = sum(int(r.get("discharged", 0) or 0) for r in results if r["kind"] == "custom")
    exhaustive = (n_unknown == 0 and not harness_errors and
                  all(r.get("status") == "confirmed" for r in results if r["kind"] == "custom"))
    bounds = []
    for h in mod.HARNESSES:
        if tier not in h.tiers:
            continue
        doc = inspect.getdoc(h.fn) or ""
        pres = [ln.strip()[4:].strip() for ln in doc.splitlines() if ln.strip().startswith("pre:")]
        bounds.append({"harness": h.name, "pre": pres, "shards": len(h.shards(tier)),
                       "cpu_timeout_s_per_shard": h.tmo(tier), "note": h.note})
    per = []
    for r in results:
        per.append({k: r.get(k) for k in ("harness", "kind", "which", "shard", "status", "paths", "cpu_s",
                                          "wall_s", "solver_queries", "solver_time_s", "obligations",
                                          "discharged") if r.get(k) is not None})
    evaluations = paths + sum(int(r.get("queries", 0) or 0) for r in results if r["kind"] == "custom")
    ev = {
        "property_id": pid,
        "tier": tier,
        "seed": int(seed),
        "level": mod.LEVEL,
        "coverage": {
            "evaluations": max(1, evaluations),
            "distinct_nontrivial": nontriv + discharged,
            "rule": ("each evaluation is one symbolic execution path of a harness over the real code (a "
                     "class of inputs decided by z3) or one SMT query; a path is non-trivial when it "
                     "reaches the harness's main assertion label (cover()); paths are distinct by "
                     "construction (distinct branch-decision sequences)"),
            "samples": samples or [{"note": "no sample captured"}],
            "exhaustive": bool(exhaustive),
            "explanation": getattr(mod, "EXPLANATION", ""),
            "functions_encoded": api.source_digest(getattr(mod, "ENCODED", [])),
            "bounds": getattr(mod, "BOUNDS", {}).get(tier, {}) if hasattr(mod, "BOUNDS") else {},
            "bounds_text": getattr(mod, "BOUNDS_TEXT", ""),
            "outside_claim": getattr(mod, "OUTSIDE", []),
            "harnesses": bounds,
            "shards_total": n_main,
            "shards_confirmed": n_conf,
            "shards_inconclusive": n_unknown,
            "paths": paths,
            "solver_queries": sum(int(r.get("solver_queries", 0) or 0) + int(r.get("queries", 0) or 0) for r in results),
            "solver_time_s": round(sum(float(r.get("solver_time_s", 0) or 0) for r in results), 2),
            "cpu_s": round(sum(float(r.get("cpu_s", 0) or 0) for r in results), 2),
            "reach_twins_refuted": sum(1 for r in results if r["kind"] == "reach" and r.get("status") == "refuted"),
            "reach_twins": sum(1 for r in results if r["kind"] == "reach"),
            "translator_validation_cases": validation["cases"] + validation.get("selftest_cases", 0),
            "obligations": obligations,
            "discharged": discharged,
            "checker_cmd": "./check %s --tier %s" % (pid, tier),
            "trusted_base": ["CrossHair 0.0.110 symbolic interpreter", "z3 5.1.0", "vlib harness + lift code"],
            "per_task": per,
            "known_findings_reported": known_lines,
            "harness_errors": harness_errors[:10],
        },
        "assumptions": list(getattr(mod, "ASSUMPTIONS", [])),
        "wall_s": round(time.time() - t0, 2),
        "violations": len(violations),
    }
    evdir = os.environ.get("VERIF_EVIDENCE_DIR") or os.path.join(HOME, "evidence")
    os.makedirs(evdir, exist_ok=True)
    with open(os.path.join(evdir, pid + ".json"), "w") as f:
        json.dump(ev, f, indent=1, sort_keys=True)
        f.write("\n")

    for ln in lines:
        print(ln)
    for ln in sorted(set(known_lines)):
        print(ln)
    print("%s tier=%s shards=%d confirmed=%d inconclusive=%d paths=%d twins=%d/%d wall=%.1fs" % (
        pid, tier, n_main, n_conf, n_unknown, paths, ev["coverage"]["reach_twins_refuted"],
        ev["coverage"]["reach_twins"], time.time() - t0))
    for r in results:
        if r["kind"] == "custom":
            print("  custom %s: %s obligations=%s discharged=%s" % (r["harness"], r.get("status"),
                                                                   r.get("obligations"), r.get("discharged")))
            if r.get("status") == "refuted":
                pass
    if violations:
        for path, r, rr in violations:
            print("counterexample in %s: %s -> %s" % (r["harness"], json.dumps(r.get("cex"))[:600], rr.get("detail")))
            print("VIOLATION property=%s replay=%s" % (pid, path))
        return 1
    if harness_errors:
        for e in harness_errors:
            print("HARNESS-ERROR: " + str(e)[:1500], file=sys.stderr)
        return 2
    return 0
