"""Engine E3 -- ropes: a length abstraction for data-oblivious code.

A `Rope` stands for an opaque byte string.  It is a list of `(start, end)` spans of one *master
stream*; the endpoints may be SYMBOLIC integers.  `len`, slicing by (symbolic) ints, `+`,
truthiness and comparison with an empty byte string are integer arithmetic on the endpoints.  Every
byte of the master stream is treated as distinct from every other one, so "delivered exactly once,
in order, nothing lost" becomes "the emitted spans are contiguous".  The abstraction is sound only
for code that never looks at the *content* of the data; therefore ANY content access (indexing one
byte, iteration, find/split/startswith/..., comparison with non-empty bytes or another rope,
hashing, the buffer protocol used by memoryview / C code) raises `RopeContentAccess` (b"".join on
a rope raises TypeError), which the harness does not catch: an unsound use shows up as a
counterexample that does not replay, i.e. as a harness error.

Rope arithmetic is *fork free* under CrossHair: slice bounds are clamped with z3 if-then-else terms
(`ite/imin/imax/clamp`), empty spans are kept instead of being dropped, `is_span` builds one
formula.  Only `bool(rope)` (the code under test asks `if data:`) and the harness's own verdicts
decide a branch.  `spans_of` gives the normal form (non-empty, merged spans) and does fork.

Two worlds (like vlib.lift):
 * api.MODE == "sym"  (under CrossHair, and in the concrete 'sym' run of the vector validation):
   `span(a, b)` is a Rope.  `isinstance(rope, bytes)` is true (`__class__` / `__ch_pytype__`).
 * api.MODE == "real" (replay in a plain interpreter): `span(a, b)` is the REAL `bytes` object
   `master(a, b)`; the unmodified twisted code then runs on real bytes.  Oracles are written with
   `is_span / same / length / spans_of`, which have an exact meaning in both worlds (in the real
   world `is_span` and `same` are byte-for-byte comparisons with the master stream).

The master stream is the function `_f(p)`: position -> byte value.  It is the identity below 256
(so for the small positions the solver usually returns, every position has its own byte value and
`spans_of` is exact in the real world) and a mixing function above (positions p and p + 256 differ).
`spans_of` on real bytes searches the spans handed out since `reset()` (prefers continuing the
current run, otherwise the longest match); it is a convenience for diagnostics -- verdicts should
use `is_span` / `same`, which cannot be confused by equal byte values at different positions unless
the *whole* compared strings coincide.

`rope_concatenate` / `rope_lazyByteSlice` are rope-aware versions of the two content-touching
helpers of twisted.internet.abstract; `rebound(module, name=value, ...)` rebinds module globals for
the duration of a harness (nothing is rebound in the real world).
"""
from vlib import api

_MARK = object()


class RopeContentAccess(Exception):
    """the code under test looked at the content of an abstract byte string"""


def _real():
    return api.MODE == "real"


# ---- the master stream (real world) ------------------------------------------------------------

def _f(p):
    return (p + 101 * (p >> 8) + 59 * (p >> 16) + 17 * (p >> 24)) & 0xFF


def master(a, b):
    """real bytes of master stream positions [a, b)"""
    if b <= a:
        return b""
    if b <= 256 and a >= 0:
        return bytes(range(a, b))
    return bytes(_f(p) for p in range(a, b))


_CREATED = []   # real world only: spans handed out since reset() (search universe of spans_of)


def reset():
    del _CREATED[:]


# ---- fork-free integer helpers ---------------------------------------------------------------------
# Under CrossHair a Python `if` on a symbolic comparison forks the path.  Rope arithmetic (clamping
# slice bounds, cutting spans) would multiply the paths of the code under test by distinctions the
# code itself never makes, so it is expressed with z3 if-then-else terms instead; only the real
# code's own branches (and the harness's final verdict) fork.  Outside CrossHair (concrete ints)
# these helpers are plain Python.

_CH = []


def _chlib():
    if not _CH:
        import sys
        if "crosshair" in sys.modules and api.MODE != "real":
            import z3
            from crosshair.libimpl import builtinslib as bl
            from crosshair.tracers import NoTracing
            _CH.append((z3, bl.SymbolicInt, bl.SymbolicBool, NoTracing))
        else:
            _CH.append(None)
    return _CH[0]


def ite(c, x, y):
    """x if c else y, without forking when c is a symbolic bool and x, y are ints"""
    lib = _chlib()
    if lib is not None:
        z3, SInt, SBool, NoTracing = lib
        with NoTracing():
            if isinstance(c, SBool):
                if x is y:
                    return x
                xv = SInt._coerce_to_smt_sort(x)
                yv = SInt._coerce_to_smt_sort(y)
                if xv is not None and yv is not None:
                    return SInt(z3.If(c.var, xv, yv))
    return x if c else y


def band(a, b):
    lib = _chlib()
    if lib is not None:
        z3, SInt, SBool, NoTracing = lib
        with NoTracing():
            sa, sb = isinstance(a, SBool), isinstance(b, SBool)
            if sa and sb:
                return SBool(z3.And(a.var, b.var))
            if sa and type(b) is bool:
                return a if b else False
            if sb and type(a) is bool:
                return b if a else False
    return True if (a and b) else False


def bor(a, b):
    lib = _chlib()
    if lib is not None:
        z3, SInt, SBool, NoTracing = lib
        with NoTracing():
            sa, sb = isinstance(a, SBool), isinstance(b, SBool)
            if sa and sb:
                return SBool(z3.Or(a.var, b.var))
            if sa and type(b) is bool:
                return True if b else a
            if sb and type(a) is bool:
                return True if a else b
    return True if (a or b) else False


def bnot(a):
    lib = _chlib()
    if lib is not None:
        z3, SInt, SBool, NoTracing = lib
        with NoTracing():
            if isinstance(a, SBool):
                return SBool(z3.Not(a.var))
    return False if a else True


def imin(x, y):
    return ite(x <= y, x, y)


def imax(x, y):
    return ite(x >= y, x, y)


def clamp(x, lo, hi):
    """min(max(x, lo), hi)"""
    return imin(imax(x, lo), hi)


# ---- the Rope value (sym world) ----------------------------------------------------------------

def _norm(segs):
    """drop empty spans, merge adjacent ones (forks: every comparison is decided by the solver)"""
    out = []
    for (a, b) in segs:
        if b > a:
            if out and out[-1][1] == a:
                out[-1] = (out[-1][0], b)
            else:
                out.append((a, b))
    return out


class Rope:
    """segs: list of (start, end) with start <= end; empty spans may be present (dropping them would
    need a fork); spans_of() gives the normal form."""
    __slots__ = ("segs",)
    _rope_marker = _MARK

    def __init__(self, segs=()):
        self.segs = list(segs)

    # pretend to be `bytes` for isinstance (plain interpreter: __class__; CrossHair: __ch_pytype__)
    @property
    def __class__(self):
        return bytes

    def __ch_pytype__(self):
        return bytes

    # -- integer arithmetic ----------------------------------------------------------------------
    def __len__(self):
        n = 0
        for (a, b) in self.segs:
            n = n + (b - a)
        return n

    def __bool__(self):
        if not self.segs:
            return False
        return True if self.__len__() > 0 else False

    def __add__(self, other):
        if is_rope(other):
            return Rope(self.segs + other.segs)
        if _is_real_bytes(other):
            if len(other) == 0:
                return Rope(self.segs)
            raise RopeContentAccess("rope + non-empty real bytes")
        return NotImplemented

    def __radd__(self, other):
        if _is_real_bytes(other):
            if len(other) == 0:
                return Rope(self.segs)
            raise RopeContentAccess("non-empty real bytes + rope")
        return NotImplemented

    def __getitem__(self, sl):
        if not isinstance(sl, slice):
            raise RopeContentAccess("rope[i]: single byte access")
        if sl.step is not None and sl.step != 1:
            raise RopeContentAccess("rope slice with a step")
        if not self.segs:
            return Rope()
        n = self.__len__()
        # bytes slicing semantics: negative indices count from the end, everything is clamped
        if sl.start is None:
            lo = 0
        else:
            lo = sl.start
            lo = ite(lo < 0, imax(lo + n, 0), imin(lo, n))
        if sl.stop is None:
            hi = n
        else:
            hi = sl.stop
            hi = ite(hi < 0, imax(hi + n, 0), imin(hi, n))
            if sl.start is not None:
                hi = imax(hi, lo)
        out = []
        pos = 0
        for (a, b) in self.segs:
            ln = b - a
            s = 0 if sl.start is None else clamp(lo - pos, 0, ln)
            e = ln if sl.stop is None else clamp(hi - pos, 0, ln)
            out.append((a + s, a + e))
            pos = pos + ln
        return Rope(out)

    def __eq__(self, other):
        if _is_real_bytes(other):
            if len(other) == 0:
                return self.__len__() == 0
            if not self.segs:
                return False
            if self.__len__() == 0:
                return False
            raise RopeContentAccess("rope == non-empty bytes")
        if is_rope(other):
            if not self.segs or not other.segs:
                return self.__len__() == 0 and other.__len__() == 0
            raise RopeContentAccess("rope == rope (use rope.same in harness code)")
        return NotImplemented

    def __ne__(self, other):
        r = self.__eq__(other)
        if r is NotImplemented:
            return r
        return bnot(r)

    def __repr__(self):
        return "<Rope>"

    # -- content access --------------------------------------------------------------------------
    def __hash__(self):
        raise RopeContentAccess("hash(rope)")

    def __iter__(self):
        raise RopeContentAccess("iter(rope)")

    def __contains__(self, x):
        raise RopeContentAccess("x in rope")

    def __bytes__(self):
        raise RopeContentAccess("bytes(rope)")

    def __buffer__(self, flags):
        raise RopeContentAccess("buffer protocol on rope (memoryview / b''.join / C code)")

    def __lt__(self, o):
        raise RopeContentAccess("rope < x")

    __le__ = __gt__ = __ge__ = __lt__

    def __mul__(self, o):
        raise RopeContentAccess("rope * n")

    __rmul__ = __mod__ = __rmod__ = __mul__


def _content_method(name):
    def m(self, *a, **k):
        raise RopeContentAccess("rope.%s()" % name)
    m.__name__ = name
    return m


for _n in dir(bytes):
    if not _n.startswith("_") and _n not in Rope.__dict__:
        setattr(Rope, _n, _content_method(_n))
del _n


def _is_real_bytes(x):
    return type(x) in (bytes, bytearray, memoryview) and not is_rope(x)


def is_rope(x):
    try:
        return x._rope_marker is _MARK
    except AttributeError:
        return False


# ---- world independent API used by harnesses -----------------------------------------------------

def span(a, b):
    """the byte string made of master stream positions [a, b)  (empty if b <= a)"""
    if _real():
        if b > a:
            _CREATED.append((a, b))
        return master(a, b)
    return Rope([(a, imax(a, b))])


def empty():
    return b"" if _real() else Rope()


def length(x):
    return len(x)


def concat(parts):
    """rope-aware b"".join(parts)"""
    if _real():
        return b"".join(bytes(p) for p in parts)
    segs = []
    for p in parts:
        if is_rope(p):
            segs = segs + p.segs
        elif len(p) != 0:
            raise RopeContentAccess("concat of non-empty real bytes with ropes")
    return Rope(segs)


def _real_decode(x):
    """real world: recover spans of `x` by matching against the master stream over the universe of
    spans handed out since reset().  Prefers continuing the current run; a new run is the longest
    match (ties: lowest position).  Exact whenever all positions are < 256."""
    x = bytes(x)
    if not x:
        return []
    if not _CREATED:
        raise ValueError("spans_of: no spans were created")
    regions = []                      # merged created intervals with their master bytes
    for (a, b) in sorted(_CREATED):
        if regions and a <= regions[-1][1]:
            regions[-1][1] = max(regions[-1][1], b)
        else:
            regions.append([a, b])
    regions = [(a, b, master(a, b)) for a, b in regions]

    def byte_at(p):
        for (a, b, m) in regions:
            if a <= p < b:
                return m[p - a]
        return None

    out = []
    i = 0
    while i < len(x):
        if out and byte_at(out[-1][1]) == x[i]:
            out[-1] = (out[-1][0], out[-1][1] + 1)
            i += 1
            continue
        best = None
        bestk = 0
        for (a, b, m) in regions:
            p = m.find(x[i:i + 1])
            while p != -1:
                k = 1
                while i + k < len(x) and p + k < len(m) and m[p + k] == x[i + k]:
                    k += 1
                if k > bestk:
                    best, bestk = a + p, k
                p = m.find(x[i:i + 1], p + 1)
        if best is None:
            raise ValueError("spans_of: byte %d at offset %d is not part of the master stream" % (x[i], i))
        if out and out[-1][1] == best:
            out[-1] = (out[-1][0], best + bestk)
        else:
            out.append((best, best + bestk))
        i += bestk
    return out


def spans_of(x):
    """normalised list of (start, end) spans (non-empty, adjacent spans merged); forks under CrossHair"""
    if is_rope(x):
        return _norm(x.segs)
    if len(x) == 0:
        return []
    if _real():
        return _real_decode(x)
    raise RopeContentAccess("spans_of(non-empty real bytes) in the rope world")


def is_span(x, a, b):
    """x is exactly master[a:b] (a <= b required)"""
    if is_rope(x):
        # total length b - a, and every non-empty span sits at its place (one formula, no forks)
        ok = True
        pos = 0
        for (p, q) in x.segs:
            ok = band(ok, bor(q <= p, p == a + pos))
            pos = pos + (q - p)
        return band(ok, pos == imax(b - a, 0))
    if _real():
        return bytes(x) == master(a, b)
    return len(x) == 0 and b <= a


def same(x, y):
    """x and y denote the same bytes (rope world: identical normalised spans)"""
    if is_rope(x) or is_rope(y):
        sx, sy = spans_of(x), spans_of(y)
        if len(sx) != len(sy):
            return False
        for (p, q) in zip(sx, sy):
            if p[0] != q[0] or p[1] != q[1]:
                return False
        return True
    return bytes(x) == bytes(y)


# ---- rope-aware replacements for the two content-touching helpers of internet/abstract.py ---------

def rope_concatenate(bObj, offset, bArray):
    """abstract._concatenate: b"".join([memoryview(bObj)[offset:]] + bArray)"""
    return concat([bObj[offset:]] + list(bArray))


def rope_lazyByteSlice(obj, offset=0, size=None):
    """twisted.python.compat.lazyByteSlice: memoryview(obj)[offset:offset+size]"""
    if size is None:
        return obj[offset:]
    return obj[offset:(offset + size)]


class rebound:
    """with rebound(module, name=value, ...): rebind module globals for the duration, then restore.
    In the real world nothing is rebound (the real helpers run on real bytes)."""

    def __init__(self, module, **names):
        self.module = module
        self.names = names
        self.saved = {}

    def __enter__(self):
        if not _real():
            for k, v in self.names.items():
                self.saved[k] = getattr(self.module, k)
                setattr(self.module, k, v)
        return self

    def __exit__(self, *exc):
        for k, v in self.saved.items():
            setattr(self.module, k, v)
        self.saved = {}
        return False


# ---- differential self test: Rope against real bytes on concrete integers -------------------------

def selftest():
    """every slice / concatenation / length / truth / ==b"" of small concrete ropes agrees with the
    same operation on the real master bytes; content access raises.  Returns the number of cases."""
    saved_mode = api.MODE
    api.MODE = "sym"
    try:
        n = _selftest_sym()
    finally:
        api.MODE = saved_mode
    # real-world decoding
    reset()
    api.MODE = "real"
    try:
        p1, p2 = span(0, 5), span(5, 9)
        assert spans_of(p1[2:] + p2[:1]) == [(2, 6)] and spans_of(p2 + p1) == [(5, 9), (0, 5)]
        assert spans_of(p1[:2] + p1[:2]) == [(0, 2), (0, 2)] and is_span(p1[1:] + p2, 1, 9)
        q = span(250, 300)
        assert spans_of(q[3:40]) == [(253, 290)] and not is_span(q, 250, 299)
        far = span(9 << 20, (9 << 20) + 4)
        assert spans_of(far[1:] + p1[:1]) == [((9 << 20) + 1, (9 << 20) + 4), (0, 1)]
        n += 7
    finally:
        api.MODE = saved_mode
        reset()
    return n


def _selftest_sym():
    n = 0
    pieces = [[(0, 0)], [(0, 3)], [(2, 5)], [(0, 2), (2, 4)], [(0, 2), (5, 8)], [(4, 6), (0, 1), (9, 9)]]
    idx = [None, -9, -3, -1, 0, 1, 2, 3, 4, 5, 9]
    for segs in pieces:
        r = Rope(segs)
        real = b"".join(master(a, b) for a, b in segs)
        assert len(r) == len(real) and bool(r) == bool(real) and (r == b"") == (real == b"")
        assert isinstance(r, bytes)
        got = b"".join(master(a, b) for a, b in spans_of(r))
        assert got == real
        n += 1
        for lo in idx:
            for hi in idx:
                s = r[lo:hi]
                want = real[lo:hi]
                assert b"".join(master(a, b) for a, b in s.segs) == want, (segs, lo, hi)
                assert len(s) == len(want)
                n += 1
        for segs2 in pieces:
            r2 = Rope(segs2)
            real2 = b"".join(master(a, b) for a, b in segs2)
            assert b"".join(master(a, b) for a, b in (r + r2).segs) == real + real2
            assert b"".join(master(a, b) for a, b in rope_concatenate(r, 1, [r2, r]).segs) == real[1:] + real2 + real
            n += 2
        assert same(b"" + r, r) and same(r + b"", r)
    r = Rope([(0, 3)])
    for bad in (lambda: r[0], lambda: list(r), lambda: r.find(b"x"), lambda: r == b"abc", lambda: hash(r),
                lambda: memoryview(r), lambda: bytes(r), lambda: r[::2],
                lambda: r + b"x", lambda: r < r, lambda: 1 in r, lambda: r.startswith(b""),
                lambda: r == Rope([(0, 3)])):
        try:
            bad()
        except RopeContentAccess:
            n += 1
        else:
            raise AssertionError("content access did not raise")
    try:
        b"".join([r])           # C code refuses the object before asking for its buffer
    except (TypeError, RopeContentAccess):
        n += 1
    else:
        raise AssertionError("content access did not raise")
    return n
