"""Replay a counterexample against the real (unlifted) code in a plain interpreter.

usage: python -m vlib.replay <replay.json>     (CrossHair is never imported here)
Prints a JSON line {"reproduced": bool, "detail": str}.
"""
import os
import sys

os.environ["VERIF_MODE"] = "real"

import importlib  # noqa: E402
import json  # noqa: E402
import traceback  # noqa: E402


def run(path):
    from vlib import api
    rec = json.load(open(path))
    os.environ["VERIF_TIER"] = rec.get("tier", "quick")
    assert "crosshair" not in sys.modules
    mod = importlib.import_module(rec["module"])
    api.apply_bounds(mod, rec.get("tier", "quick"))
    fn = getattr(mod, rec["harness"], None)
    if fn is None:
        fn = api.harness_map(mod)[rec["harness"]].fn
    args = {k: api.dec(v) for k, v in rec["args"].items()}
    try:
        r = fn(**args)
    except Exception as e:  # noqa
        return {"reproduced": True,
                "detail": "raised " + "".join(traceback.format_exception_only(type(e), e)).strip()[:500],
                "traceback": traceback.format_exc()[-1500:]}
    if r is False or (isinstance(r, tuple) and r and r[0] is False):
        return {"reproduced": True, "detail": "property function returned %r" % (r,)}
    return {"reproduced": False, "detail": "returned %r" % (r,)}


if __name__ == "__main__":
    out = run(sys.argv[1])
    sys.stdout.write("\n" + json.dumps(out) + "\n")
