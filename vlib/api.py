"""Harness-side API.  Must stay importable without CrossHair (replay runs in a
plain interpreter)."""
import hashlib
import importlib
import inspect
import os

MODE = os.environ.get("VERIF_MODE", "sym")  # 'sym' under the solver, 'real' in replay
TIER = os.environ.get("VERIF_TIER", "quick")

_hits = set()        # labels reached on the current path
HIT_COUNTS = {}      # label -> number of completed paths that reached it (per worker)
OBS = []             # observation log used for lifted-vs-real validation


def cover(label="end"):
    """Mark that the current path reached a point of interest (vacuity guard and
    'non-trivial path' counter)."""
    _hits.add(label)
    HIT_COUNTS[label] = HIT_COUNTS.get(label, 0) + 1
    return True


def obs(x):
    OBS.append(x)
    return x


class H:
    """One harness: a function with PEP-316 pre/post conditions calling real code.

    shards : list of tuples of extra precondition strings (case split run in
             parallel); may be a callable(tier) -> list.
    timeout: CPU seconds per shard, dict per tier or number.
    labels : cover() labels that a reachability twin must be able to reach.
    """

    def __init__(self, fn, shards=None, timeout=None, tiers=("quick", "thorough"),
                 labels=("end",), reach_timeout=60, note=""):
        self.fn = fn
        self.name = fn.__name__
        self._shards = shards
        self.timeout = timeout or {"quick": 40, "thorough": 600}
        self.tiers = tiers
        self.labels = tuple(labels)
        self.reach_timeout = reach_timeout
        self.note = note

    def shards(self, tier):
        s = self._shards
        if callable(s):
            s = s(tier)
        if not s:
            return [()]
        return [tuple(x) if isinstance(x, (list, tuple)) else (x,) for x in s]

    def tmo(self, tier):
        if isinstance(self.timeout, dict):
            return self.timeout.get(tier, self.timeout.get("quick", 40))
        return self.timeout


def harness_map(mod):
    return {h.name: h for h in mod.HARNESSES}


def apply_bounds(mod, tier):
    """props modules keep tier dependent bounds in BOUNDS[tier]; conditions refer to B[...]"""
    b = getattr(mod, "BOUNDS", None)
    if b is not None:
        mod.B.clear()
        mod.B.update(b[tier])


def source_digest(qualnames):
    """sha256 of the current /repo source of each encoded function ('pkg.mod:Class.meth')."""
    out = {}
    for qn in qualnames:
        modname, _, attr = qn.partition(":")
        try:
            m = importlib.import_module(modname)
            o = m
            for part in attr.split("."):
                if part:
                    o = getattr(o, part)
            o = inspect.unwrap(o) if callable(o) else o
            if isinstance(o, property):
                o = o.fget
            src = inspect.getsource(o)
            out[qn] = hashlib.sha256(src.encode()).hexdigest()[:16]
        except Exception as e:  # noqa
            out[qn] = "unavailable: %s" % (type(e).__name__,)
    return out


# ---- JSON encoding of counterexample arguments -------------------------------------------

def enc(v):
    if isinstance(v, bool) or v is None or isinstance(v, (int, str)):
        return v
    if isinstance(v, float):
        return {"__float__": repr(v)}
    if isinstance(v, (bytes, bytearray)):
        return {"__bytes__": bytes(v).decode("latin-1")}
    if isinstance(v, tuple):
        return {"__tuple__": [enc(x) for x in v]}
    if isinstance(v, (list,)):
        return [enc(x) for x in v]
    if isinstance(v, (set, frozenset)):
        return {"__set__": [enc(x) for x in sorted(v, key=repr)]}
    if isinstance(v, dict):
        return {"__dict__": [[enc(k), enc(x)] for k, x in v.items()]}
    return {"__repr__": repr(v)}


def dec(v):
    if isinstance(v, list):
        return [dec(x) for x in v]
    if isinstance(v, dict):
        if "__float__" in v:
            return float(v["__float__"])
        if "__bytes__" in v:
            return v["__bytes__"].encode("latin-1")
        if "__tuple__" in v:
            return tuple(dec(x) for x in v["__tuple__"])
        if "__set__" in v:
            return set(dec(x) for x in v["__set__"])
        if "__dict__" in v:
            return {dec(k): dec(x) for k, x in v["__dict__"]}
        raise ValueError("cannot decode %r" % (v,))
    return v
