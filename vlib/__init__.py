"""Solver-based checking of the real Twisted code: shared machinery.

runner  - orchestration: shards -> worker processes -> verdicts -> replay -> evidence
worker  - one CrossHair analysis (in-process driver) of one harness shard
world   - 'sym' (lifted / symbolic) vs 'real' (plain interpreter, real bytes) modes
lbytes  - LBytes/LBuf: bytes semantics over (symbolic) latin-1 text  (engine E2)
lift    - AST lift of real twisted source onto LBytes                 (engine E2)
rope    - length abstraction of opaque data                           (engine E3)
fakefs  - in-memory filesystem with symbolic crash point              (engine E4)
smt     - Python-AST -> SMT translation for integer kernels           (engine E6)
"""
