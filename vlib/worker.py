"""One CrossHair analysis of one harness shard (or one reachability twin), in-process driver.

usage: python -m vlib.worker <props module> <harness> <tier> main <shard index> <extra pre json>
       python -m vlib.worker <props module> <harness> <tier> reach <label> <extra pre json>
Prints one JSON object on the last stdout line.
"""
import collections
import importlib
import inspect
import json
import os
import re
import sys
import time
import traceback
import types

os.environ["VERIF_MODE"] = "sym"


def _gen_wrapper(mod, fn, extra_pre, twin_label=None):
    """CrossHair reads PEP-316 conditions from the *source file*, so each task gets a generated
    module with a wrapper whose docstring carries the harness's own conditions plus the shard's
    extra preconditions.  The wrapper only forwards to the harness function."""
    import importlib.util
    import tempfile
    doc = inspect.getdoc(fn) or ""
    pres = [ln.strip() for ln in doc.splitlines() if ln.strip().startswith("pre:")]
    posts = [ln.strip() for ln in doc.splitlines() if ln.strip().startswith("post:")]
    raises = [ln.strip() for ln in doc.splitlines() if ln.strip().startswith("raises:")]
    pres += ["pre: " + p for p in extra_pre]
    sig = inspect.signature(fn)
    params = list(sig.parameters)
    name = fn.__name__ + ("__reach" if twin_label is not None else "")
    body = []
    if twin_label is None:
        body.append("    return __vorig(%s)" % ", ".join(params))
    else:
        posts = ["post: _"]
        body.append("    __vapi._hits.clear()")
        body.append("    __vorig(%s)" % ", ".join(params))
        body.append("    return %r not in __vapi._hits" % (twin_label,))
    src = ["from typing import *", "import %s as __vm" % mod.__name__,
           "from %s import *" % mod.__name__, "from vlib import api as __vapi",
           "globals().update({k: v for k, v in __vm.__dict__.items() if not k.startswith('__')})",
           "__vorig = __vm.%s" % fn.__name__ if hasattr(mod, fn.__name__) else "__vorig = __vapi.harness_map(__vm)[%r].fn" % fn.__name__,
           "", "def %s%s:" % (name, str(sig)), '    """']
    src += ["    " + ln for ln in pres + raises + posts]
    src += ['    """'] + body + [""]
    tf = tempfile.NamedTemporaryFile("w", suffix=".py", prefix="vh_%s_" % name, delete=False)
    tf.write("\n".join(src))
    tf.close()
    spec = importlib.util.spec_from_file_location("vh_gen_" + name, tf.name)
    gm = importlib.util.module_from_spec(spec)
    sys.modules[spec.name] = gm
    spec.loader.exec_module(gm)
    return getattr(gm, name), tf.name


def main(argv):
    modname, hname, tier, kind, which, extra_json = argv[:6]
    os.environ["VERIF_TIER"] = tier
    t0 = time.time()
    res = {"module": modname, "harness": hname, "kind": kind, "which": which, "status": "error"}
    try:
        import crosshair.core_and_libs  # noqa: registers plugins
        from crosshair import core
        from crosshair.libimpl import builtinslib
        from crosshair.core import analyze_function, run_checkables, deep_realize
        from crosshair.options import AnalysisOptionSet
        from crosshair.tracers import NoTracing
        from crosshair.statespace import MessageType
        import z3
        from vlib import api

        # real-number float model only (see DESIGN 2/E1): every symbolic float is a finite real
        # (no nan/inf argument classes: 4^k forks), and the real-based model's "cap the verdict at
        # unknown" marker is dropped, because exact-real arithmetic on finite times IS the stated
        # claim for the timer properties (float rounding is outside the claim).
        builtinslib._PYTYPE_TO_WRAPPER_TYPE[float] = ((builtinslib.RealBasedSymbolicFloat, 1.0),)
        os.environ["CROSSHAIR_ONLY_FINITE_FLOATS"] = "1"
        import warnings
        warnings.filterwarnings("ignore", category=FutureWarning)
        from crosshair import statespace as _ss
        _ss.StateSpace.cap_result_at_unknown = lambda self: None

        # Never replace a call by its contract ("short-circuiting"): the wrapper generated below
        # forwards to the harness function, which carries the same PEP-316 docstring; CrossHair
        # would otherwise assume `post` for the call instead of executing the real code.
        core.consider_shortcircuit = lambda *a, **k: None
        # ... and never enforce callee contracts at run time: a failing `post` of the forwarded
        # harness would be raised as PostconditionFailed inside the wrapper and the path dropped.
        from crosshair import enforce
        enforce.EnforcedConditions.trace_call = lambda self, frame, fn, binding_target: None

        # Twisted turns *any* BaseException raised in a callback into a Failure (defer.py catches
        # BaseException); CrossHair steers paths with BaseException subclasses, which must never be
        # swallowed that way.
        from crosshair.util import ControlFlowException
        from twisted.python import failure as _tfailure
        _orig_finit = _tfailure.Failure.__init__

        def _finit(self, exc_value=None, *a, **k):
            ev = exc_value if exc_value is not None else sys.exc_info()[1]
            if isinstance(ev, ControlFlowException):
                raise ev
            return _orig_finit(self, exc_value, *a, **k)
        _tfailure.Failure.__init__ = _finit

        # CrossHair 0.0.110: `a == b` on symbolic strs can return a CONCRETE wrong False when the two
        # code-point sequences model different python container types (e.g. `(p + "")[:1] + ...`
        # gives SymbolicList-vs-tuple-view halves).  A concrete False is therefore re-decided
        # element-wise (authoritative); symbolic results and True are left alone.
        from crosshair import simplestructs as _sst

        def _elementwise(x, y):
            if len(x) != len(y):
                return False
            for a, b in zip(x, y):
                if a is b:
                    continue
                if a != b:
                    return False
            return True

        def _sub_eq(x, y):
            r = (x == y)
            with NoTracing():
                suspicious = (r is False) or (r is NotImplemented)
            if not suspicious:
                return r
            return _elementwise(x, y)

        def _seqcat_eq(self, other):
            with NoTracing():
                if not hasattr(other, "__len__"):
                    return False
                first, second = self._first, self._second
            if self.__len__() != other.__len__():
                return False
            firstlen = first.__len__()
            return _sub_eq(first, other[:firstlen]) and _sub_eq(second, other[firstlen:])
        _sst.SequenceConcatenation.__eq__ = _seqcat_eq

        _orig_str_eq = builtinslib.LazyIntSymbolicStr.__eq__

        def _str_eq(self, other):
            r = _orig_str_eq(self, other)
            with NoTracing():
                suspicious = r is False
                kind = 0
                if suspicious:
                    if isinstance(other, builtinslib.LazyIntSymbolicStr):
                        kind = 1
                    elif isinstance(other, str):
                        kind = 2
            if not suspicious or kind == 0:
                return r
            mine = self._codepoints
            theirs = other._codepoints if kind == 1 else [ord(ch) for ch in other]
            return _elementwise(mine, theirs)
        builtinslib.LazyIntSymbolicStr.__eq__ = _str_eq

        # CrossHair 0.0.110 models a non-MULTILINE `$` as "end of string" only; Python's `$` also
        # matches just before a trailing newline.  (Found with a seeded `^[0-9a-fA-F]+$` rewrite of
        # _ishexdigits that was wrongly Confirmed.)  Rewrite `$` into the equivalent look-ahead
        # `(?=\n?\Z)` in the parsed pattern, which the symbolic matcher does handle.
        from crosshair.libimpl import relib as _relib
        _rp = _relib.re_parser
        _orig_parse = _relib.parse

        def _fix_dollar(seq, flags):
            data = seq.data if hasattr(seq, "data") else seq
            for i, (op, av) in enumerate(list(data)):
                if op is _rp.AT and av is _rp.AT_END and not (flags & re.MULTILINE):
                    data[i] = (_rp.ASSERT, (1, [(_rp.MAX_REPEAT, (0, 1, [(_rp.LITERAL, 10)])),
                                                (_rp.AT, _rp.AT_END_STRING)]))
                elif op in (_rp.MAX_REPEAT, _rp.MIN_REPEAT):
                    _fix_dollar(av[2], flags)
                elif op is _rp.BRANCH:
                    for alt in av[1]:
                        _fix_dollar(alt, flags)
                elif op is _rp.SUBPATTERN:
                    _fix_dollar(av[3], flags)
                elif op in (_rp.ASSERT, _rp.ASSERT_NOT):
                    _fix_dollar(av[1], flags)
            return seq

        def _parse(pattern, flags=0, *a, **k):
            p = _orig_parse(pattern, flags, *a, **k)
            st = getattr(p, "state", None)
            return _fix_dollar(p, getattr(st, "flags", flags))
        _relib.parse = _parse

        # count solver queries and time
        qstat = {"n": 0, "t": 0.0}
        _orig_check = z3.Solver.check

        def _check(self, *a):
            s = time.perf_counter()
            try:
                return _orig_check(self, *a)
            finally:
                qstat["n"] += 1
                qstat["t"] += time.perf_counter() - s
        z3.Solver.check = _check

        captured = []
        _orig_msg = core.make_counterexample_message

        def _msg(conditions, args, return_val=None):
            m = _orig_msg(conditions, args, return_val)
            try:
                with NoTracing():
                    real = deep_realize(args)
                captured.append({k: api.enc(v) for k, v in real.arguments.items()})
            except Exception as e:  # noqa
                captured.append({"__capture_error__": repr(e)})
            return m
        core.make_counterexample_message = _msg

        mod = importlib.import_module(modname)
        api.apply_bounds(mod, tier)
        h = api.harness_map(mod)[hname]
        extra = json.loads(extra_json)
        if kind == "main":
            shard = list(h.shards(tier)[int(which)])
            fn, tmpf = _gen_wrapper(mod, h.fn, shard + extra)
            timeout = float(os.environ.get("VERIF_TIMEOUT_OVERRIDE", h.tmo(tier)))
            res["shard"] = shard
        else:
            fn, tmpf = _gen_wrapper(mod, h.fn, extra, twin_label=which)
            timeout = h.reach_timeout
        stats = collections.Counter()
        opts = AnalysisOptionSet(per_condition_timeout=timeout, report_all=True, stats=stats,
                                 max_uninteresting_iterations=sys.maxsize,
                                 per_path_timeout=max(20.0, timeout / 4))
        c0 = time.process_time()
        try:
            msgs = run_checkables(analyze_function(fn, opts))
        finally:
            try:
                os.unlink(tmpf)
            except OSError:
                pass
        res["cpu_s"] = round(time.process_time() - c0, 2)
        res["paths"] = int(stats.get("num_paths", 0))
        res["solver_queries"] = qstat["n"]
        res["solver_time_s"] = round(qstat["t"], 2)
        res["hits"] = dict(api.HIT_COUNTS)
        res["messages"] = [{"state": m.state.name, "message": m.message[:2000],
                            "line": m.line, "traceback": (m.traceback or "")[-1500:]} for m in msgs]
        states = [m.state for m in msgs]
        bad = [m for m in msgs if m.state in (MessageType.POST_FAIL, MessageType.EXEC_ERR,
                                              MessageType.POST_ERR)]
        if bad:
            res["status"] = "refuted"
            res["cex"] = captured[-1] if captured else None
        elif any(s in (MessageType.SYNTAX_ERR, MessageType.IMPORT_ERR) for s in states):
            res["status"] = "error"
        elif states and all(s == MessageType.CONFIRMED for s in states):
            res["status"] = "confirmed"
        elif any(s == MessageType.PRE_UNSAT for s in states):
            res["status"] = "pre_unsat"
        else:
            res["status"] = "unknown"
        if not msgs:
            res["status"] = "error"
            res["error"] = "no conditions found on harness"
    except BaseException as e:  # noqa
        res["status"] = "error"
        res["error"] = "".join(traceback.format_exception(type(e), e, e.__traceback__))[-3000:]
    res["wall_s"] = round(time.time() - t0, 2)
    sys.stdout.write("\n" + json.dumps(res) + "\n")
    sys.stdout.flush()


if __name__ == "__main__":
    main(sys.argv[1:])
