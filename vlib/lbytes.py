"""LBytes / LBuf: `bytes` / `bytearray` semantics over a (possibly symbolic) latin-1 `str`.

CrossHair's symbolic `bytes` realises at concatenation, split, struct and BytesIO; its symbolic
`str` (z3 sequences) does not.  The lift (vlib/lift.py) recompiles real twisted source so that
every bytes literal becomes an LBytes and the names bytes/bytearray/int/struct/... resolve to
the shims below.  LBytes is a *distinct* class: LBytes == str is False, indexing yields ints.
"""
import re as _re
import struct as _struct
import sys as _sys

_WS = " \t\n\r\x0b\x0c"


def _s(x):
    """latin-1 text of any bytes-like value"""
    if isinstance(x, _LBase):
        return x.s
    if isinstance(x, (bytes, bytearray, memoryview)):
        return bytes(x).decode("latin-1")
    raise TypeError("a bytes-like object is required, not %r" % type(x).__name__)


def _is_conc(x):
    """True when x is a plain (non-symbolic) value"""
    tr = _sys.modules.get("crosshair.tracers")
    if tr is None:
        return True
    with tr.NoTracing():
        return type(x) in (str, int, bytes)


FAST_CLASS = False  # opt-in: membership of a symbolic byte in a concrete class forks once (in / not in)
NORMALISE = False   # opt-in (a props module sets lbytes.NORMALISE = True): see _norm


def _flat(cps, lo, hi):
    """code points lo..hi of a CrossHair code point sequence as a list of plain ints, or None when
    one of them is symbolic (or the container is of an unknown kind).  Call with tracing off."""
    tp = type(cps)
    if tp is list or tp is tuple:
        out = cps[lo:hi]
        for c in out:
            if type(c) is not int:
                return None
        return list(out)
    name = tp.__name__
    if name == "SliceView":
        st, sp = cps.start, cps.stop
        if type(st) is not int or type(sp) is not int:
            return None
        n = sp - st
        lo2, hi2 = min(lo, n), min(hi, n)
        return _flat(cps.seq, st + lo2, st + hi2)
    if name == "SequenceConcatenation":
        a, b_ = cps._first, cps._second
        if type(a) not in (list, tuple) and type(a).__name__ not in ("SliceView", "SequenceConcatenation"):
            return None
        try:
            na = len(a)
        except Exception:  # noqa
            return None
        if type(na) is not int:
            return None
        left = _flat(a, min(lo, na), min(hi, na)) if lo < na else []
        if left is None:
            return None
        right = _flat(b_, max(lo - na, 0), hi - na) if hi > na else []
        if right is None:
            return None
        return left + right
    return None


def _norm(s):
    """a CrossHair symbolic str whose code points are all plain ints (a piece of a partly symbolic
    buffer that happens to contain none of the symbolic bytes) is replaced by the equal real str:
    nothing is realised, but every later operation on it runs natively instead of through CrossHair's
    Python-level string model.  No-op outside CrossHair."""
    tr = _sys.modules.get("crosshair.tracers")
    if tr is None:
        return s
    with tr.NoTracing():
        if type(s) is str or type(s).__name__ != "LazyIntSymbolicStr":
            return s
        try:
            cps = _flat(s._codepoints, 0, 1 << 60)
        except Exception:  # noqa
            return s
        if cps is None:
            return s
        return "".join(map(chr, cps))


def _fast_text(s):
    """LBytes.__init__ fast path (NORMALISE only): the text when `s` is a real or CrossHair str,
    decided with tracing off (each traced isinstance() costs ~30 us); None for anything else"""
    tr = _sys.modules.get("crosshair.tracers")
    if tr is None:
        return s if type(s) is str else None
    with tr.NoTracing():
        if type(s) is str:
            return s
        if type(s).__name__ != "LazyIntSymbolicStr":
            return None
        try:
            cps = _flat(s._codepoints, 0, 1 << 60)
        except Exception:  # noqa
            return s
        if cps is None:
            return s
        return "".join(map(chr, cps))


_RANGES = {}


def _ranges(text):
    """sorted inclusive ordinal ranges of a concrete character class"""
    r = _RANGES.get(text)
    if r is None:
        os_ = sorted(set(ord(c) for c in text))
        r = []
        for o in os_:
            if r and r[-1][1] == o - 1:
                r[-1][1] = o
            else:
                r.append([o, o])
        r = _RANGES[text] = [tuple(x) for x in r]
    return r


def _ord_in(o, text):
    """ordinal `o` (possibly symbolic) in the concrete character class `text`: a few range tests
    instead of one path per character"""
    if FAST_CLASS and not _is_conc(o):
        # one symbolic boolean (a z3 disjunction) instead of one path per range and per gap
        acc = False
        for lo, hi in _ranges(text):
            acc = acc | ((lo <= o) & (o <= hi))
        return True if acc else False
    for lo, hi in _ranges(text):
        if lo <= o <= hi:
            return True
    return False


def _ord1(ch):
    """code point of a length-1 text, by iteration: CrossHair's ord() cannot index a one-character
    slice whose bounds are symbolic ints (e.g. a slice of a strip()ped text taken in a range() loop)"""
    for c in ch:
        return ord(c)
    raise TypeError("ord() expected a character")


def _char_in(ch, text):
    if len(text) > 3 and _is_conc(text) and not _is_conc(ch):
        return _ord_in(ord(ch), text)
    return ch in text


def pw_z3(v, pieces, otherwise):
    """z3 term of pw_map over the z3 integer term v"""
    import z3
    e = otherwise[0] * v + otherwise[1]
    if isinstance(e, int):
        e = z3.IntVal(e)
    for lo, hi, mul, add in reversed(pieces):
        e = z3.If(z3.And(v >= lo, v <= hi), mul * v + add, e)
    return e


def pw_map(x, pieces, otherwise=(1, 0)):
    """piecewise-linear map of an int: mul*x + add on the piece (lo, hi, mul, add) containing x, else
    otherwise[0]*x + otherwise[1].  A symbolic x gives ONE if-then-else term: no fork per piece, and
    z3 decides such terms far faster than floor-division encodings of the same table (measured: base64
    digit round trip 1.4 s -> 0.03 s).  Used for digit <-> character tables and single-byte replace."""
    if _is_conc(x):
        for lo, hi, mul, add in pieces:
            if lo <= x <= hi:
                return mul * x + add
        return otherwise[0] * x + otherwise[1]
    from crosshair.libimpl.builtinslib import SymbolicInt
    from crosshair.tracers import NoTracing
    with NoTracing():
        if not isinstance(x, SymbolicInt):
            x = None
        else:
            return SymbolicInt(pw_z3(x.var, pieces, otherwise))
    raise TypeError("pw_map: unexpected symbolic integer type")


def _len_conc(s):
    """True when len(s) is a plain int (the text may still have symbolic characters)"""
    return _is_conc(len(s))


# opt-in (set by a props module): find / strip on a text with symbolic characters but a concrete
# length scan with concrete indices instead of calling the str method, whose result is symbolic
FAST_SCAN = False


def _scannable(s):
    return (not _is_conc(s)) and _len_conc(s) and len(s) <= 256


def _is_byteslike(x):
    return isinstance(x, (_LBase, bytes, bytearray, memoryview))


class _LBase:
    __slots__ = ("s",)

    def _new(self, s):
        return LBytes(s)

    def __len__(self):
        return len(self.s)

    def __bool__(self):
        return True if len(self.s) > 0 else False

    def __eq__(self, o):
        if isinstance(o, _LBase):
            return self.s == o.s
        if isinstance(o, (bytes, bytearray)):
            return self.s == bytes(o).decode("latin-1")
        return False

    def __ne__(self, o):
        return not self.__eq__(o)

    def __lt__(self, o):
        return self.s < _s(o)

    def __le__(self, o):
        return self.s <= _s(o)

    def __gt__(self, o):
        return self.s > _s(o)

    def __ge__(self, o):
        return self.s >= _s(o)

    def __add__(self, o):
        if not _is_byteslike(o):
            return NotImplemented
        return self._new(self.s + _s(o))

    def __radd__(self, o):
        if not _is_byteslike(o):
            return NotImplemented
        return LBytes(_s(o) + self.s)

    def __mul__(self, n):
        return self._new(self.s * n)

    __rmul__ = __mul__

    def __getitem__(self, i):
        if isinstance(i, slice):
            return self._new(self.s[i])
        return ord(self.s[i])

    def __iter__(self):
        for ch in self.s:
            yield ord(ch)

    def __contains__(self, x):
        if isinstance(x, int):
            if len(self.s) > 3 and _is_conc(self.s) and not _is_conc(x):
                return _ord_in(x, self.s)
            return chr(x) in self.s
        xs = _s(x)
        if len(self.s) > 3 and _is_conc(self.s) and not _is_conc(xs) and len(xs) == 1:
            return _ord_in(_ord1(xs), self.s)
        return xs in self.s

    def __mod__(self, args):
        return LBytes(_fmt(self.s, args))

    def __repr__(self):
        # formatting a symbolic value would realise it (one path per value): messages never matter
        if not _is_conc(self.s):
            return "b'<symbolic>'"
        return "b" + repr(self.s)

    def __bytes__(self):
        return self.s.encode("latin-1")

    # -- searching / splitting ------------------------------------------------------------
    def find(self, sub, *a):
        sub = chr(sub) if isinstance(sub, int) else _s(sub)
        if FAST_SCAN and len(a) <= 1 and _scannable(self.s) and _is_conc(sub) and len(sub) == 1 and \
                (not a or _is_conc(a[0])):
            # left-to-right scan with concrete indices: the result is a plain int on every path (a
            # symbolic result would make every later slice a symbolic-bounds slice)
            start = a[0] if a else 0
            n = len(self.s)
            if start < 0:
                start = max(0, n + start)
            for k in range(start, n):
                if self.s[k] == sub:
                    return k
            return -1
        return self.s.find(sub, *a)

    def rfind(self, sub, *a):
        return self.s.rfind(chr(sub) if isinstance(sub, int) else _s(sub), *a)

    def index(self, sub, *a):
        return self.s.index(chr(sub) if isinstance(sub, int) else _s(sub), *a)

    def count(self, sub, *a):
        return self.s.count(chr(sub) if isinstance(sub, int) else _s(sub), *a)

    def startswith(self, p, *a):
        if isinstance(p, tuple):
            return self.s.startswith(tuple(_s(x) for x in p), *a)
        return self.s.startswith(_s(p), *a)

    def endswith(self, p, *a):
        if isinstance(p, tuple):
            return self.s.endswith(tuple(_s(x) for x in p), *a)
        return self.s.endswith(_s(p), *a)

    def split(self, sep=None, maxsplit=-1):
        if sep is None:
            return [LBytes(p) for p in _split_ws(self.s, maxsplit)]
        return [LBytes(p) for p in self.s.split(_s(sep), maxsplit)]

    def rsplit(self, sep=None, maxsplit=-1):
        if sep is None:
            if maxsplit == -1:
                return self.split()
            raise NotImplementedError("rsplit(None, n)")
        return [LBytes(p) for p in self.s.rsplit(_s(sep), maxsplit)]

    def partition(self, sep):
        a, b, c = self.s.partition(_s(sep))
        return (LBytes(a), LBytes(b), LBytes(c))

    def rpartition(self, sep):
        a, b, c = self.s.rpartition(_s(sep))
        return (LBytes(a), LBytes(b), LBytes(c))

    def splitlines(self, keepends=False):
        # bytes.splitlines splits on \n, \r, \r\n only (str.splitlines knows many more)
        out = []
        cur = []
        s = self.s
        i = 0
        n = len(s)
        while i < n:
            ch = s[i]
            if ch == "\n" or ch == "\r":
                end = i + 1
                if ch == "\r" and end < n and s[end] == "\n":
                    end += 1
                out.append(LBytes("".join(cur) + (s[i:end] if keepends else "")))
                cur = []
                i = end
            else:
                cur.append(ch)
                i += 1
        if cur:
            out.append(LBytes("".join(cur)))
        return out

    def replace(self, a, b, *n):
        a, b = _s(a), _s(b)
        if (not n and len(a) == 1 and len(b) == 1 and _is_conc(a) and _is_conc(b) and not _is_conc(self.s)
                and _len_conc(self.s) and len(self.s) <= 64):
            # byte-for-byte substitution: one if-then-else term per position instead of a fork
            oa, ob = ord(a), ord(b)
            return self._new("".join([chr(pw_map(ord(c), [(oa, oa, 0, ob)])) for c in self.s]))
        return self._new(self.s.replace(a, b, *n))

    def _strip(self, chars, left, right):
        chars = _WS if chars is None else _s(chars)
        if FAST_SCAN and _scannable(self.s) and _is_conc(chars):
            # scan from the ends with concrete indices (see find)
            a, z = 0, len(self.s)
            while left and a < z and _char_in(self.s[a], chars):
                a += 1
            while right and z > a and _char_in(self.s[z - 1], chars):
                z -= 1
            return self._new(self.s[a:z])
        if left and right:
            return self._new(self.s.strip(chars))
        return self._new(self.s.lstrip(chars) if left else self.s.rstrip(chars))

    def strip(self, chars=None):
        return self._strip(chars, True, True)

    def lstrip(self, chars=None):
        return self._strip(chars, True, False)

    def rstrip(self, chars=None):
        return self._strip(chars, False, True)

    def join(self, parts):
        return LBytes(self.s.join([_s(p) for p in parts]))

    def translate(self, table, delete=b""):
        d = _s(delete)
        s = "".join([c for c in self.s if not _char_in(c, d)]) if d else self.s
        if table is not None:
            t = _s(table)
            s = "".join([t[ord(c)] for c in s])
        return self._new(s)

    # -- ASCII-only predicates / case --------------------------------------------------------
    def isdigit(self):
        if len(self.s) == 0:
            return False
        for ch in self.s:
            if not ("0" <= ch <= "9"):
                return False
        return True

    def isalpha(self):
        if len(self.s) == 0:
            return False
        for ch in self.s:
            if not (("a" <= ch <= "z") or ("A" <= ch <= "Z")):
                return False
        return True

    def isalnum(self):
        if len(self.s) == 0:
            return False
        for ch in self.s:
            if not (("a" <= ch <= "z") or ("A" <= ch <= "Z") or ("0" <= ch <= "9")):
                return False
        return True

    def isspace(self):
        if len(self.s) == 0:
            return False
        for ch in self.s:
            if not _char_in(ch, _WS):
                return False
        return True

    def isupper(self):
        cased = False
        for ch in self.s:
            if "a" <= ch <= "z":
                return False
            if "A" <= ch <= "Z":
                cased = True
        return cased

    def islower(self):
        cased = False
        for ch in self.s:
            if "A" <= ch <= "Z":
                return False
            if "a" <= ch <= "z":
                cased = True
        return cased

    def lower(self):
        return self._new("".join([chr(ord(c) + 32) if "A" <= c <= "Z" else c for c in self.s]))

    def upper(self):
        return self._new("".join([chr(ord(c) - 32) if "a" <= c <= "z" else c for c in self.s]))

    def title(self):
        out = []
        prev = False
        for c in self.s:
            if "a" <= c <= "z":
                out.append(chr(ord(c) - 32) if not prev else c)
                prev = True
            elif "A" <= c <= "Z":
                out.append(chr(ord(c) + 32) if prev else c)
                prev = True
            else:
                out.append(c)
                prev = False
        return self._new("".join(out))

    def capitalize(self):
        l = self.lower().s
        if not l:
            return self._new(l)
        c = l[0]
        return self._new((chr(ord(c) - 32) if "a" <= c <= "z" else c) + l[1:])

    def zfill(self, n):
        return self._new(self.s.zfill(n))

    def ljust(self, n, fill=b" "):
        return self._new(self.s.ljust(n, _s(fill)))

    def rjust(self, n, fill=b" "):
        return self._new(self.s.rjust(n, _s(fill)))

    def hex(self):
        return "".join(["%02x" % ord(c) for c in self.s])

    def decode(self, enc="utf-8", errors="strict"):
        e = enc.lower().replace("_", "-")
        if e in CODECS and CODECS[e][1] is not None:
            return CODECS[e][1](self.s, errors)
        if e in ("latin-1", "latin1", "iso-8859-1", "charmap"):
            return self.s
        if e in ("ascii", "us-ascii"):
            for i, ch in enumerate(self.s):
                if ch > "\x7f":
                    if errors == "strict":
                        raise UnicodeDecodeError("ascii", self.s.encode("latin-1"), i, i + 1, "ordinal not in range(128)")
                    return self.s.encode("latin-1").decode(enc, errors)
            return self.s
        allascii = True
        for ch in self.s:
            if ch > "\x7f":
                allascii = False
                break
        if allascii and e in ("utf-8", "utf8"):
            return self.s
        return self.s.encode("latin-1").decode(enc, errors)

    def tobytes(self):
        return LBytes(self.s)


class LBytes(_LBase):
    """stand-in for `bytes` (also bound to the *name* bytes in lifted code, so isinstance works)"""
    __slots__ = ()

    def __init__(self, s="", encoding=None, errors="strict"):
        if NORMALISE and encoding is None:
            r = _fast_text(s)
            if r is not None:
                self.s = r
                return
        if isinstance(s, _LBase):
            s = s.s
        elif isinstance(s, (bytes, bytearray, memoryview)):
            s = bytes(s).decode("latin-1")
        elif isinstance(s, str):
            if encoding is not None:
                s = encode_text(s, encoding, errors).s
        elif isinstance(s, int):
            s = "\0" * s
        else:
            s = "".join([chr(i) for i in s])
        self.s = _norm(s) if NORMALISE else s

    def __hash__(self):
        return hash(self.s)

    @staticmethod
    def fromhex(h):
        return LBytes(bytes.fromhex(h).decode("latin-1"))

    @staticmethod
    def maketrans(a, b):
        return bytes.maketrans(bytes(a) if not isinstance(a, bytes) else a, bytes(b) if not isinstance(b, bytes) else b)


class LBuf(_LBase):
    """stand-in for `bytearray`"""
    __slots__ = ()
    __hash__ = None

    def __init__(self, s="", encoding=None, errors="strict"):
        self.s = LBytes(s, encoding, errors).s

    def _new(self, s):
        return LBuf(s)

    def __iadd__(self, o):
        self.s = self.s + _s(o)
        return self

    def extend(self, o):
        self.s = self.s + (_s(o) if _is_byteslike(o) else "".join([chr(i) for i in o]))

    def append(self, i):
        self.s = self.s + chr(i)

    def __delitem__(self, sl):
        if not isinstance(sl, slice):
            n = len(self.s)
            i = sl if sl >= 0 else n + sl
            self.s = self.s[:i] + self.s[i + 1:]
            return
        assert sl.step is None
        n = len(self.s)
        a = 0 if sl.start is None else sl.start
        b = n if sl.stop is None else sl.stop
        if a < 0:
            a = max(0, n + a)
        if b < 0:
            b = max(0, n + b)
        if b < a:
            b = a
        self.s = self.s[:a] + self.s[b:]

    def __setitem__(self, i, v):
        if isinstance(i, slice):
            assert i.step is None
            n = len(self.s)
            a = 0 if i.start is None else i.start
            b = n if i.stop is None else i.stop
            self.s = self.s[:a] + _s(v) + self.s[b:]
        else:
            n = len(self.s)
            j = i if i >= 0 else n + i
            self.s = self.s[:j] + chr(v) + self.s[j + 1:]

    def clear(self):
        self.s = ""


def l_bytes(x=b"", *a):
    """the call `bytes(...)` in lifted code"""
    return LBytes(x, *a)


def l_memoryview(x):
    return x


def l_str(x="", *a):
    """the call `str(...)` in lifted code"""
    if isinstance(x, _LBase) and a:
        return x.decode(*a)
    return str(x, *a) if a else str(x)


_DIG = "0123456789abcdefghijklmnopqrstuvwxyz"


def _msg_repr(x):
    """repr for error messages: formatting a symbolic text would realise it (one path per value)"""
    return repr(x) if _is_conc(x) else "'<symbolic>'"


def l_int(x=0, base=None):
    """the call `int(...)` in lifted code: int(b'..', base) with bytes semantics (ASCII digits,
    surrounding ASCII whitespace, sign, underscores rejected here for simplicity = same as CPython
    except single inner underscores, which are stated as outside the claim)"""
    if isinstance(x, _LBase):
        x = x.s
    elif isinstance(x, (bytes, bytearray)):
        x = x.decode("latin-1")
    elif not isinstance(x, str):
        return int(x) if base is None else int(x, base)
    b = 10 if base is None else base
    s = x.strip(_WS)
    neg = False
    if s[:1] == "-":
        neg = True
        s = s[1:]
    elif s[:1] == "+":
        s = s[1:]
    if b == 16 and s[:2] in ("0x", "0X"):
        s = s[2:]
    if len(s) == 0:
        raise ValueError("invalid literal for int() with base %d: %s" % (b, _msg_repr(x)))
    v = 0
    for ch in s:
        o = ord(ch)
        if 48 <= o <= 57:
            d = o - 48
        elif 97 <= o <= 122:
            d = o - 87
        elif 65 <= o <= 90:
            d = o - 55
        else:
            raise ValueError("invalid literal for int() with base %d: %s" % (b, _msg_repr(x)))
        if d >= b:
            raise ValueError("invalid literal for int() with base %d: %s" % (b, _msg_repr(x)))
        v = v * b + d
    return -v if neg else v


def encode_text(t, enc="utf-8", errors="strict"):
    """str.encode in lifted code (call sites rewritten by the lift when asked)"""
    e = enc.lower().replace("_", "-")
    if e in CODECS and CODECS[e][0] is not None:
        return LBytes(CODECS[e][0](t, errors))
    if e in ("latin-1", "latin1", "iso-8859-1", "charmap"):
        for i, ch in enumerate(t):
            if ch > "\xff":
                raise UnicodeEncodeError("latin-1", t, i, i + 1, "ordinal not in range(256)")
        return LBytes(t)
    allascii = True
    for ch in t:
        if ch > "\x7f":
            allascii = False
            break
    if allascii and e in ("ascii", "us-ascii", "utf-8", "utf8", "charmap"):
        return LBytes(t)
    return LBytes(t.encode(enc, errors).decode("latin-1"))


# pure-Python codec ports registered by props modules (C codecs realise symbolic text):
# name -> (encode(text, errors) -> latin-1 text of the bytes | None, decode(latin-1 text, errors) -> text | None)
CODECS = {}


def _hexdigit(d, upper):
    """ASCII code of hex digit d (0..15), no branch on a symbolic d"""
    return pw_map(d, [(0, 9, 1, 48), (10, 15, 1, 55 if upper else 87)], (0, 63))


def fmt_int(v, spec):
    """format(v, spec) for a non-negative int and spec = [0][width](x|X|d), digit by digit, so that a
    symbolic v is not realised; anything else goes to format()"""
    m = _re.fullmatch(r"(0?)(\d*)([xXd])", spec)
    if m is None or _is_conc(v):
        return format(v, spec)
    if v < 0:
        return format(v, spec)
    return _fmt_int_arith(v, 10 if m.group(3) == "d" else 16, m.group(3) == "X", int(m.group(2) or 0),
                          bool(m.group(1)))


def _fmt_int_arith(v, base, upper, width, zero):
    n = 1
    lim = base
    while v >= lim:          # one path per digit count
        n += 1
        lim *= base
    out = []
    for k in range(n - 1, -1, -1):
        d = (v // (base ** k)) % base
        out.append(chr(_hexdigit(d, upper)))
    s = "".join(out)
    if len(s) < width:
        s = ("0" if zero else " ") * (width - n) + s
    return s


def l_fval(v, conversion, spec):
    """one replacement field of a lifted f-string"""
    if conversion == 115:
        v = str(v)
    elif conversion == 114:
        v = repr(v)
    elif conversion == 97:
        v = ascii(v)
    if isinstance(v, int) and not isinstance(v, bool) and spec != "":
        return fmt_int(v, spec)
    if isinstance(v, str) and spec == "":
        return v
    return format(v, spec)


def l_fstr(*parts):
    return "".join(parts)


def _split_ws(s, maxsplit=-1):
    out = []
    cur = []
    n = 0
    i = 0
    L = len(s)
    while i < L:
        ch = s[i]
        if ch in _WS:
            if cur:
                out.append("".join(cur))
                cur = []
                n += 1
            i += 1
            continue
        if maxsplit >= 0 and n >= maxsplit:
            out.append(s[i:].rstrip(_WS))
            return out
        cur.append(ch)
        i += 1
    if cur:
        out.append("".join(cur))
    return out


def _dec_arith(v):
    """decimal digits of a (symbolic) int v >= 0: one path per digit count; each digit is the
    difference of two quotients (no `%`: CrossHair's mod of a compound term such as -n does not finish)"""
    n = 1
    lim = 10
    while v >= lim:
        n += 1
        lim *= 10
    out = []
    qhi = 0
    for k in range(n - 1, -1, -1):
        q = v // (10 ** k)
        out.append(chr(48 + (q - 10 * qhi)))
        qhi = q
    return "".join(out)


_FMT = _re.compile(r"%(\([^)]*\))?([#0\- +]*)(\*|\d+)?(\.(\*|\d+))?([bsrdiuxXoc%a])")


def _fmt(f, args):
    """bytes %-formatting: %b/%s take bytes-like, %d/%x ints, %c int or 1 byte"""
    if not isinstance(args, tuple):
        args = (args,)
    out = []
    pos = 0
    ai = 0
    for m in _FMT.finditer(f):
        out.append(f[pos:m.start()])
        pos = m.end()
        conv = m.group(6)
        if conv == "%":
            out.append("%")
            continue
        if m.group(1):
            raise NotImplementedError("mapping keys in bytes formatting")
        a = args[ai]
        ai += 1
        spec = "%" + (m.group(2) or "") + (m.group(3) or "") + (m.group(4) or "")
        if conv in "bs":
            if not _is_byteslike(a):
                if hasattr(a, "__bytes__"):
                    a = LBytes(bytes(a))
                else:
                    raise TypeError("%%b requires a bytes-like object, not %r" % type(a).__name__)
            if spec == "%":
                out.append(_s(a))
            else:
                out.append((spec + "s") % _s(a))
        elif conv in "ra":
            out.append((spec + "s") % ascii(a if not isinstance(a, _LBase) else a.s.encode("latin-1")))
        elif conv == "c":
            out.append(chr(a) if isinstance(a, int) else _s(a))
        elif (conv in "diu" and spec == "%" and isinstance(a, int) and not isinstance(a, bool)
              and not _is_conc(a)):
            # plain %d of a symbolic int: decimal digits by arithmetic (formatting would realise it)
            out.append(("-" + _dec_arith(-a)) if a < 0 else _dec_arith(a))
        else:
            out.append((spec + conv) % a)
    out.append(f[pos:])
    if ai != len(args):
        raise TypeError("not all arguments converted during bytes formatting")
    return "".join(out)


# ---- struct (network byte order, standard sizes) ---------------------------------------------

_SIZES = {"B": 1, "b": 1, "H": 2, "h": 2, "I": 4, "i": 4, "L": 4, "l": 4, "Q": 8, "q": 8, "x": 1, "c": 1,
          "?": 1}


def _parse_struct(fmt):
    if isinstance(fmt, _LBase):
        fmt = fmt.s
    elif isinstance(fmt, bytes):
        fmt = fmt.decode()
    if fmt[:1] in "!>":
        order = ">"
        fmt = fmt[1:]
    elif fmt[:1] == "<":
        order = "<"
        fmt = fmt[1:]
    elif fmt[:1] in "=@":
        raise NotImplementedError("native struct formats")
    else:
        # native order/size: only byte-sized codes are order independent
        order = ">"
        for ch in fmt:
            if ch not in "Bbxc?s0123456789":
                raise NotImplementedError("native struct format %r" % fmt)
    items = []
    num = ""
    for ch in fmt:
        if ch.isdigit():
            num += ch
            continue
        if ch == " ":
            continue
        n = int(num) if num else 1
        num = ""
        if ch == "s":
            items.append(("s", n))
        elif ch in _SIZES:
            items.extend([(ch, _SIZES[ch])] * n)
        else:
            raise NotImplementedError("struct code %r" % ch)
    return order, items


class l_struct:
    error = _struct.error

    @staticmethod
    def calcsize(fmt):
        return sum(sz for _, sz in _parse_struct(fmt)[1])

    @staticmethod
    def pack(fmt, *vals):
        order, items = _parse_struct(fmt)
        out = []
        vi = 0
        for code, sz in items:
            if code == "x":
                out.append("\0")
                continue
            v = vals[vi]
            vi += 1
            if code == "s":
                t = _s(v)[:sz]
                out.append(t + "\0" * (sz - len(t)))
                continue
            if code == "c":
                out.append(_s(v))
                continue
            if code == "?":
                v = 1 if v else 0
            if not isinstance(v, int):
                raise _struct.error("required argument is not an integer")
            if code in "bhilq":
                lo, hi = -(1 << (8 * sz - 1)), (1 << (8 * sz - 1)) - 1
                if not (lo <= v <= hi):
                    raise _struct.error("'%s' format requires %d <= number <= %d" % (code, lo, hi))
                if v < 0:
                    v += 1 << (8 * sz)
            else:
                if not (0 <= v < (1 << (8 * sz))):
                    raise _struct.error("'%s' format requires 0 <= number <= %d" % (code, (1 << (8 * sz)) - 1))
            chars = []
            for k in range(sz):
                shift = 8 * (sz - 1 - k)
                chars.append(chr((v >> shift) & 255 if shift else v & 255))
            if order == "<":
                chars.reverse()
            out.append("".join(chars))
        if vi != len(vals):
            raise _struct.error("pack expected %d items for packing (got %d)" % (vi, len(vals)))
        return LBytes("".join(out))

    @staticmethod
    def unpack(fmt, data):
        order, items = _parse_struct(fmt)
        s = _s(data)
        total = sum(sz for _, sz in items)
        if len(s) != total:
            raise _struct.error("unpack requires a buffer of %d bytes" % total)
        out = []
        p = 0
        for code, sz in items:
            chunk = s[p:p + sz]
            p += sz
            if code == "x":
                continue
            if code == "s":
                out.append(LBytes(chunk))
                continue
            if code == "c":
                out.append(LBytes(chunk))
                continue
            if order == "<":
                chunk = chunk[::-1]
            v = 0
            for ch in chunk:
                v = v * 256 + ord(ch)
            if code == "?":
                out.append(v != 0)
                continue
            if code in "bhilq" and v >= (1 << (8 * sz - 1)):
                v -= 1 << (8 * sz)
            out.append(v)
        return tuple(out)

    @staticmethod
    def unpack_from(fmt, data, offset=0):
        n = l_struct.calcsize(fmt)
        return l_struct.unpack(fmt, LBytes(_s(data)[offset:offset + n]))


# ---- BytesIO ------------------------------------------------------------------------------

class LBytesIO:
    """cursor over an LBytes (read/write/seek/tell/getvalue/truncate)"""

    def __init__(self, initial=b""):
        self.s = _s(initial)
        self.pos = 0
        self.closed = False

    def read(self, n=-1):
        if n is None or n < 0:
            r = self.s[self.pos:]
            self.pos = max(self.pos, len(self.s))
            return LBytes(r)
        r = self.s[self.pos:self.pos + n]
        self.pos = self.pos + len(r)
        return LBytes(r)

    def write(self, data):
        d = _s(data)
        n = len(self.s)
        if self.pos > n:
            self.s = self.s + "\0" * (self.pos - n)
        self.s = self.s[:self.pos] + d + self.s[self.pos + len(d):]
        self.pos = self.pos + len(d)
        return len(d)

    def seek(self, off, whence=0):
        if whence == 0:
            if off < 0:
                raise ValueError("negative seek value %r" % (off,))
            self.pos = off
        elif whence == 1:
            self.pos = max(0, self.pos + off)
        else:
            self.pos = max(0, len(self.s) + off)
        return self.pos

    def tell(self):
        return self.pos

    def getvalue(self):
        return LBytes(self.s)

    def truncate(self, size=None):
        if size is None:
            size = self.pos
        self.s = self.s[:size]
        return size

    def close(self):
        self.closed = True

    def flush(self):
        pass

    def __enter__(self):
        return self

    def __exit__(self, *a):
        self.close()


# ---- re -------------------------------------------------------------------------------------

class _LMatch:
    def __init__(self, m):
        self.m = m

    def group(self, *a):
        r = self.m.group(*a)
        if isinstance(r, tuple):
            return tuple(None if x is None else LBytes(x) for x in r)
        return None if r is None else LBytes(r)

    def groups(self, default=None):
        return tuple(default if x is None else LBytes(x) for x in self.m.groups())

    def groupdict(self, default=None):
        return {k: (default if v is None else LBytes(v)) for k, v in self.m.groupdict().items()}

    def start(self, *a):
        return self.m.start(*a)

    def end(self, *a):
        return self.m.end(*a)

    def span(self, *a):
        return self.m.span(*a)

    def __getitem__(self, i):
        return self.group(i)


class _LPattern:
    def __init__(self, pat, flags=0):
        self.text = isinstance(pat, str)
        self.p = _re.compile(pat if self.text else _s(pat), flags | (0 if self.text else _re.ASCII))
        self.pattern = pat

    def _w(self, m):
        if m is None or self.text:
            return m
        return _LMatch(m)

    def _in(self, x):
        return x if self.text else _s(x)

    def match(self, x, *a):
        return self._w(self.p.match(self._in(x), *a))

    def fullmatch(self, x, *a):
        return self._w(self.p.fullmatch(self._in(x), *a))

    def search(self, x, *a):
        return self._w(self.p.search(self._in(x), *a))

    def split(self, x, *a):
        r = self.p.split(self._in(x), *a)
        return r if self.text else [None if y is None else LBytes(y) for y in r]

    def findall(self, x, *a):
        r = self.p.findall(self._in(x), *a)
        if self.text:
            return r
        return [tuple(LBytes(z) for z in y) if isinstance(y, tuple) else LBytes(y) for y in r]

    def finditer(self, x, *a):
        for m in self.p.finditer(self._in(x), *a):
            yield self._w(m)

    def sub(self, repl, x, count=0):
        if self.text:
            return self.p.sub(repl, x, count)
        if callable(repl):
            return LBytes(self.p.sub(lambda m: _s(repl(_LMatch(m))), _s(x), count))
        return LBytes(self.p.sub(_s(repl), _s(x), count))


class l_re:
    """`re` for lifted code: bytes patterns become ASCII-mode text patterns over the latin-1 text"""
    I = IGNORECASE = _re.I
    M = MULTILINE = _re.M
    S = DOTALL = _re.S
    X = VERBOSE = _re.X
    A = ASCII = _re.A
    error = _re.error
    Pattern = _LPattern
    escape = staticmethod(lambda x: LBytes(_re.escape(_s(x))) if _is_byteslike(x) else _re.escape(x))

    @staticmethod
    def compile(pat, flags=0):
        return _LPattern(pat, flags)

    @staticmethod
    def match(pat, x, flags=0):
        return _LPattern(pat, flags).match(x)

    @staticmethod
    def fullmatch(pat, x, flags=0):
        return _LPattern(pat, flags).fullmatch(x)

    @staticmethod
    def search(pat, x, flags=0):
        return _LPattern(pat, flags).search(x)

    @staticmethod
    def split(pat, x, maxsplit=0, flags=0):
        return _LPattern(pat, flags).split(x, maxsplit)

    @staticmethod
    def findall(pat, x, flags=0):
        return _LPattern(pat, flags).findall(x)

    @staticmethod
    def sub(pat, repl, x, count=0, flags=0):
        return _LPattern(pat, flags).sub(repl, x, count)


# ---- containers comparing (not hashing) symbolic keys ---------------------------------------

class SymSet:
    def __init__(self, items=()):
        self.items = []
        for x in items:
            self.add(x)

    def add(self, x):
        if x not in self:
            self.items.append(x)

    def __contains__(self, x):
        for y in self.items:
            if x == y:
                return True
        return False

    def __len__(self):
        return len(self.items)

    def __iter__(self):
        return iter(self.items)


class SymDict:
    def __init__(self, init=None):
        self.ks = []
        self.vs = []
        if init:
            for k, v in (init.items() if hasattr(init, "items") else init):
                self[k] = v

    def _idx(self, k):
        for i, y in enumerate(self.ks):
            if k == y:
                return i
        return -1

    def __contains__(self, k):
        return self._idx(k) >= 0

    def __getitem__(self, k):
        i = self._idx(k)
        if i < 0:
            raise KeyError(k)
        return self.vs[i]

    def get(self, k, default=None):
        i = self._idx(k)
        return default if i < 0 else self.vs[i]

    def __setitem__(self, k, v):
        i = self._idx(k)
        if i < 0:
            self.ks.append(k)
            self.vs.append(v)
        else:
            self.vs[i] = v

    def __delitem__(self, k):
        i = self._idx(k)
        if i < 0:
            raise KeyError(k)
        del self.ks[i]
        del self.vs[i]

    def pop(self, k, *d):
        i = self._idx(k)
        if i < 0:
            if d:
                return d[0]
            raise KeyError(k)
        v = self.vs[i]
        del self.ks[i]
        del self.vs[i]
        return v

    def setdefault(self, k, v=None):
        i = self._idx(k)
        if i < 0:
            self[k] = v
            return v
        return self.vs[i]

    def keys(self):
        return list(self.ks)

    def values(self):
        return list(self.vs)

    def items(self):
        return list(zip(self.ks, self.vs))

    def __iter__(self):
        return iter(list(self.ks))

    def __len__(self):
        return len(self.ks)

    def clear(self):
        del self.ks[:]
        del self.vs[:]

    def copy(self):
        d = SymDict()
        d.ks = list(self.ks)
        d.vs = list(self.vs)
        return d

    def update(self, other):
        for k, v in (other.items() if hasattr(other, "items") else other):
            self[k] = v


# ---- bit operations on symbolic ints as integer arithmetic (lift(..., bitops=True)) -----------------
# CrossHair sends & | ^ << >> on symbolic ints through Int<->BitVec conversions that z3 rarely
# finishes.  These shims keep everything in linear integer arithmetic (div/mod by constants) and never
# fork on bit values.  Non-int operands (sets, flags, type unions, bools) use the real operator.

def _plain_int(x):
    return isinstance(x, int) and not isinstance(x, bool)


def _and_mask(a, mask):
    """a & mask for a concrete mask >= 0 and any int a (Python floor semantics = two's complement)"""
    if mask & (mask + 1) == 0:
        return a % (mask + 1)
    r = 0
    i = 0
    while mask >> i:
        if (mask >> i) & 1:
            r = r + ((a // (1 << i)) % 2) * (1 << i)
        i += 1
    return r


def _bitwise_arith(kind, a, b, width):
    """a <kind> b for 0 <= a, b < 2**width, bit by bit without branching"""
    r = 0
    for i in range(width):
        p = 1 << i
        sm = (a // p) % 2 + (b // p) % 2
        if kind == "and":
            r = r + p * (sm // 2)
        elif kind == "or":
            r = r + p * ((sm + 1) // 2)
        else:
            r = r + p * (sm % 2)
    return r


def _notrace():
    tr = _sys.modules.get("crosshair.tracers")
    return tr.NoTracing() if tr is not None else None


def note_bits(x, mask):
    """record on the symbolic int x itself that it is non-negative and has no bits set outside `mask`
    (derived from how it was computed: `& mask`, shifts, ord() of a byte); lets `|` of bit-disjoint
    values become `+`.  Stored as an attribute of the object: no state outlives the path."""
    if not _is_conc(x):
        nt = _notrace()
        if nt is not None:
            with nt:
                try:
                    object.__setattr__(x, "_vl_bits", mask)
                except (AttributeError, TypeError):
                    pass
    return x


def _known_bits(x):
    if _is_conc(x):
        return x if x >= 0 else None
    nt = _notrace()
    if nt is None:
        return None
    with nt:
        try:
            return object.__getattribute__(x, "_vl_bits")
        except AttributeError:
            return None


def _bitop(kind, a, b, real):
    if not (_plain_int(a) and _plain_int(b)):
        return real(a, b)
    ca, cb = _is_conc(a), _is_conc(b)
    if ca and cb:
        return real(a, b)
    ka, kb = _known_bits(a), _known_bits(b)
    if kind != "and" and ka is not None and kb is not None and (ka & kb) == 0:
        return note_bits(a + b, ka | kb)          # bit-disjoint operands: | and ^ are +
    if kind == "and" and ka is not None and kb is not None and (ka & kb) == 0:
        return 0
    if ca:
        a, b, ca, cb, ka, kb = b, a, cb, ca, kb, ka
    if cb and b >= 0:
        if kind == "and":
            return note_bits(_and_mask(a, b), b if ka is None else (b & ka))
        if b == 0:
            return a
        if kind == "or":
            r = a + b - _and_mask(a, b)
        else:
            r = a + b - 2 * _and_mask(a, b)
        return r if ka is None else note_bits(r, ka | b)
    if not cb:
        for width in (8, 16, 32):
            lim = 1 << width
            if 0 <= a < lim and 0 <= b < lim:
                r = _bitwise_arith(kind, a, b, width)
                if ka is not None and kb is not None:
                    note_bits(r, (ka & kb) if kind == "and" else (ka | kb))
                return r
    return real(a, b)


def l_bitand(a, b):
    return _bitop("and", a, b, lambda x, y: x & y)


def l_bitor(a, b):
    return _bitop("or", a, b, lambda x, y: x | y)


def l_bitxor(a, b):
    return _bitop("xor", a, b, lambda x, y: x ^ y)


def l_shl(a, n):
    if _plain_int(a) and _plain_int(n) and _is_conc(n) and n >= 0 and not _is_conc(a):
        k = _known_bits(a)
        r = a * (1 << n)
        return r if k is None else note_bits(r, k << n)
    return a << n


def l_shr(a, n):
    if _plain_int(a) and _plain_int(n) and _is_conc(n) and n >= 0 and not _is_conc(a):
        k = _known_bits(a)
        r = a // (1 << n)
        return r if k is None else note_bits(r, k >> n)
    return a >> n


# ---- differential self-test against the real types (run on every lifted check) ---------------

def selftest():
    """differential self-test, run once as configured and once with the opt-in FAST_SCAN code paths
    forced on (they are only taken for symbolic text otherwise)"""
    global FAST_SCAN, _scannable
    n = _selftest_once()
    saved = (FAST_SCAN, _scannable)
    FAST_SCAN, _scannable = True, (lambda s: True)
    try:
        n += _selftest_once()
    finally:
        FAST_SCAN, _scannable = saved
    return n


def _selftest_once():
    """LBytes/LBuf/shims vs real bytes/bytearray/struct/int on a hostile corpus; returns #cases,
    raises AssertionError on any disagreement."""
    n = 0
    alpha = [b"", b"a", b"A", b"0", b"9", b" ", b"\r", b"\n", b"\r\n", b"\t", b"\x00", b"\x7f", b"\x80", b"\xff",
             b":", b";", b",", b".", b"-", b"+", b"=", b"&", b"x", b"F", b"g", b"\x85", b"\x1c", b"\x0b", b"\x0c"]
    corpus = [a + b for a in alpha for b in alpha] + [b"ab\r\ncd\nef\rgh", b" 12 ", b"Content-Length", b"a,b,,c",
                                                      b"  lead", b"trail  ", b"\x0b\x0cx\x1c\x85", b"A b\tC"]

    def T(x):
        if isinstance(x, _LBase):
            return ("B", x.s)
        if isinstance(x, (bytes, bytearray)):
            return ("B", bytes(x).decode("latin-1"))
        if isinstance(x, (list, tuple)):
            return [T(y) for y in x]
        return x
    for c in corpus:
        L = LBytes(c)
        for name, args in [("split", (b",",)), ("split", ()), ("split", (b"\r\n",)), ("split", (b" ", 1)),
                           ("splitlines", ()), ("splitlines", (True,)), ("strip", ()), ("lstrip", ()), ("rstrip", ()),
                           ("strip", (b" \t",)), ("lower", ()), ("upper", ()), ("isdigit", ()), ("isalpha", ()),
                           ("isalnum", ()), ("isspace", ()), ("title", ()), ("capitalize", ()),
                           ("find", (b"\n",)), ("rfind", (b"a",)), ("startswith", (b"a",)), ("endswith", (b"\n",)),
                           ("partition", (b":",)), ("rpartition", (b":",)), ("replace", (b"\r\n", b"\n")),
                           ("count", (b"a",)), ("hex", ()), ("isupper", ()), ("islower", ()),
                           ("rsplit", (b",", 1)), ("translate", (None, b"\r\n")), ("find", (b"a", 1)),
                           ("find", (b"\n", -1)), ("strip", (b"a\n",)), ("lstrip", (b" a",)), ("rstrip", (b"\r\n",))]:
            largs = tuple(LBytes(a) if isinstance(a, bytes) else a for a in args)
            try:
                want = T(getattr(c, name)(*args))
            except Exception as e:  # noqa
                want = type(e).__name__
            try:
                got = T(getattr(L, name)(*largs))
            except Exception as e:  # noqa
                got = type(e).__name__
            assert want == got, (c, name, args, want, got)
            n += 1
        assert list(c) == list(L) and len(c) == len(L) and bool(c) == bool(L)
        assert (L == LBytes(c)) and not (L == c.decode("latin-1")) and (L == c) and (c == L)
        for base in (10, 16, 8):
            try:
                want = int(c, base)
            except ValueError:
                want = "ValueError"
            try:
                got = l_int(L, base)
            except ValueError:
                got = "ValueError"
            if b"_" not in c:
                assert want == got, (c, base, want, got)
            n += 1
        if c:
            assert c[0] == L[0] and c[-1] == L[-1] and T(c[1:]) == T(L[1:]) and T(c[:-1]) == T(L[:-1])
        b1, b2 = bytearray(c), LBuf(c)
        b1 += b"xy"
        b2 += LBytes("xy")
        del b1[:1]
        del b2[:1]
        assert T(b1) == T(b2)
        n += 3
    for fmt, vals in [("!H", (0,)), ("!H", (65535,)), ("!I", (4294967295,)), ("!B", (255,)), ("!HH", (1, 2)),
                      ("!BBHHH", (1, 2, 3, 4, 5)), ("!h", (-2,)), ("!i", (-1,)), ("!Q", (2 ** 64 - 1,)),
                      (">L", (7,)), ("!4s", (b"ab",)), ("<H", (258,)), ("B", (7,)), ("!l", (-5,)),
                      ("!HHHHHH", (1, 2, 3, 4, 5, 6)), ("!HHIH", (1, 2, 3, 4))]:
        want = _struct.pack(fmt, *vals)
        got = l_struct.pack(fmt, *[LBytes(v) if isinstance(v, bytes) else v for v in vals])
        assert T(want) == T(got), (fmt, vals, want, got)
        assert T(_struct.unpack(fmt, want)) == T(l_struct.unpack(fmt, got)), fmt
        assert _struct.calcsize(fmt) == l_struct.calcsize(fmt)
        n += 3
    for f, a in [(b"%x\r\n", (255,)), (b"%d", (12,)), (b"%s:%s", (b"a", b"b")), (b"%b,", (b"\xff",)),
                 (b"%d:%s,", (3, b"abc")), (b"100%%", ()), (b"%02x", (5,)), (b"%c", (65,)), (b"%5d|", (42,)),
                 (b"%-4s|", (b"ab",))]:
        want = f % a
        got = LBytes(f) % tuple(LBytes(x) if isinstance(x, bytes) else x for x in a)
        assert T(want) == T(got), (f, a, want, got)
        n += 1
    io = LBytesIO(LBytes("hello"))
    assert io.read(2) == b"he" and io.tell() == 2 and io.read() == b"llo" and io.read(1) == b""
    io.seek(0)
    io.write(LBytes("HE"))
    assert io.getvalue() == b"HEllo"
    n += 4
    for v in list(range(0, 300)) + [4095, 4096, 65535, 65536, 99999, 100000]:
        for spec in ("02X", "02x", "x", "X", "d", "3d", "03d", "4x", "04X"):
            assert fmt_int(v, spec) == format(v, spec), (v, spec)
            assert _fmt_int_arith(v, 10 if spec[-1] == "d" else 16, spec[-1] == "X", int(spec[:-1] or 0),
                                  spec[0] == "0") == format(v, spec), (v, spec)
            n += 1
    try:
        import z3
    except ImportError:
        z3 = None
    if z3 is not None:
        zv = z3.Int("v")
        for pieces, other in [([(0, 9, 1, 48), (10, 15, 1, 55)], (0, 63)), ([(47, 47, 0, 44)], (1, 0)),
                              ([(65, 90, 1, -65), (97, 122, 1, -71), (48, 57, 1, 4)], (0, -1))]:
            term = pw_z3(zv, pieces, other)
            for x in range(-3, 260):
                assert z3.simplify(z3.substitute(term, (zv, z3.IntVal(x)))).as_long() == pw_map(x, pieces, other)
                n += 1
    assert l_fstr("+", l_fval(171, -1, "02X"), "z", l_fval("q", -1, ""), l_fval(5, 114, "")) == f"+{171:02X}z{'q'}{5!r}"
    assert (LBytes("a") in LBytes("xyza")) and not (LBytes("b") in LBytes("xyza")) and (LBytes("za") in LBytes("xyza"))
    n += 2
    for pat, x in [(rb"^[0-9a-f]+$", b"12af"), (rb"\s+", b"a  b\tc"), (rb"(\w+)=(\w*)", b"k=v; j=")]:
        want = _re.findall(pat, x)
        got = l_re.findall(LBytes(pat), LBytes(x))
        assert T(want) == T(got), (pat, x, want, got)
        n += 1
    for a in (0, 1, 2, 3, 5, 63, 64, 127, 128, 192, 200, 255, 256, 4660, 49152, 65535, -1, -7, -256):
        for m in (0, 1, 15, 63, 0x3F, 0xC0, 0xFF, 0xF0, 0x8001, 0xC000, 5):
            assert _and_mask(a, m) == a & m, (a, m)
            if a >= 0:
                assert a + m - _and_mask(a, m) == a | m and a + m - 2 * _and_mask(a, m) == a ^ m, (a, m)
                for w in (8, 16):
                    if a < (1 << w) and m < (1 << w):
                        assert _bitwise_arith("and", a, m, w) == a & m and _bitwise_arith("or", a, m, w) == a | m
                        assert _bitwise_arith("xor", a, m, w) == a ^ m
            n += 1
        assert l_bitand(a, 15) == a & 15 and l_bitor(a, 16) == a | 16 and l_bitxor(a, 9) == a ^ 9
        assert l_shl(a, 3) == a << 3 and l_shr(a, 3) == a >> 3 and a * 8 == a << 3 and a // 8 == a >> 3
        n += 1
    assert l_bitor({1}, {2}) == {1, 2} and l_bitand(True, False) is False
    n += 1
    return n
