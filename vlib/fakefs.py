"""E4: in-memory filesystem with a symbolic crash point (the environment model of C50-C53).

A dict-backed model of exactly the calls twisted's persistence code makes: builtin ``open`` in
``r/w/a/r+/w+/a+`` (binary) modes with ``write/flush/close/seek/tell/read/truncate``; ``os.open``
(O_CREAT|O_EXCL) + ``os.fdopen``; ``os.rename/replace/remove/unlink/mkdir/rmdir/listdir/stat/lstat/
access/fsync/chmod/umask/utime/symlink/readlink/kill/getpid/urandom``; ``os.path.exists/isdir/isfile/
islink/getsize`` and ``glob.glob``.  ``installed(fs, module, ...)`` rebinds the module-level names
(``os``, ``glob``, ``open``/``_open`` and every from-imported os function such as ``listdir``,
``stat``, ``symlink``, ``rmlink``, ``randomBytes``) inside the module objects under test for the
duration of one harness call and restores them afterwards.  Paths are concrete; file *contents* are
whatever the code writes (real ``bytes`` in replay, ``LBytes`` over symbolic text or ``Rope`` spans
with symbolic lengths under the solver) and are only concatenated, measured and sliced here.

Crash model (contract, repeated in each property's ASSUMPTIONS):
  * every mutating call (create, truncating open, write, truncate, rename, remove, mkdir, rmdir,
    symlink) is one step; the call whose step index equals ``crash_at`` does not take effect and
    raises ``Crash`` -- except that a crashed ``write`` leaves the first ``cut`` units of its data
    (a prefix, possibly all of it) in the file;
  * file objects are buffered like CPython's (``FakeFile``): ``write`` fills a per-handle buffer of
    ``bufsize`` units (8192 unless the harness scales it or ``open`` is given an explicit size;
    ``buffering=0`` = unbuffered); the buffer goes to the disk -- one step -- at ``flush``,
    ``close``/``__exit__``, ``seek``, ``truncate``, ``read`` or when a write no longer fits (old
    buffer first, a write larger than the buffer straight through); a crash loses every unflushed
    buffer, and ``cut`` tears the flush that is in progress; buffers of objects dropped without
    ``close`` are never written (CPython would flush them at garbage collection);
  * ``rename``/``replace``/``remove``/``mkdir``/``rmdir``/``symlink`` are atomic;
  * data and directory operations are durable in program order (no fsync reordering);
  * after the crash the process is dead: *every* later call on this filesystem raises ``Crash``
    again, so code that swallows the exception (``except BaseException``) cannot change the disk.
A second fault kind, ``arm_interrupt(at, exc)``, raises one harness-defined BaseException at a step and
lets the process live on (the filesystem keeps working): an interruption the application survives.
``Crash`` derives from BaseException so that ``except Exception``/``except OSError`` in the code
under test cannot swallow it; the harness asks ``fs.crashed`` instead of relying on propagation.
"""
import builtins as _builtins
import errno as _errno
import fnmatch as _fnmatch
import glob as _real_glob
import io as _io
import os as _os
import posixpath as _pp
import stat as _stat_mod


class Crash(BaseException):
    """the simulated process died at this filesystem call"""


class ContentAccess(Exception):
    """data-oblivious code looked inside a Rope"""


def _err(code, path=None):
    return OSError(code, _os.strerror(code), path)


# ---- Rope: opaque content made of spans of numbered writes --------------------------------------

class Rope:
    """Content for data-oblivious code (E3): a sequence of spans (wid, lo, hi) meaning units lo..hi of
    payload number `wid`; lo/hi may be symbolic ints.  Supports only what a file needs: len, +,
    prefix/suffix slicing.  Any attempt to look at the content raises ContentAccess."""
    __slots__ = ("spans",)

    def __init__(self, spans=()):
        self.spans = tuple(spans)

    @staticmethod
    def payload(wid, n):
        return Rope(((wid, 0, n),))

    def __len__(self):
        total = 0
        for _, lo, hi in self.spans:
            total = total + (hi - lo)
        return total

    def __bool__(self):
        return True if self.__len__() > 0 else False

    def __add__(self, o):
        if isinstance(o, Rope):
            return Rope(self.spans + o.spans)
        return NotImplemented

    def _cut(self, k):
        """(prefix of k units, rest); forks once per span"""
        head, tail = [], []
        left = k
        for wid, lo, hi in self.spans:
            n = hi - lo
            if left >= n:
                head.append((wid, lo, hi))
                left = left - n
            elif left <= 0:
                tail.append((wid, lo, hi))
            else:
                head.append((wid, lo, lo + left))
                tail.append((wid, lo + left, hi))
                left = 0
        return Rope(head), Rope(tail)

    def __getitem__(self, sl):
        if not isinstance(sl, slice) or sl.step is not None:
            raise ContentAccess("Rope content was inspected")
        n = self.__len__()
        a = 0 if sl.start is None else sl.start
        z = n if sl.stop is None else sl.stop
        if a < 0 or z < 0:
            raise ContentAccess("negative Rope slice")
        if z > n:
            z = n
        if a > z:
            a = z
        return self._cut(z)[0]._cut(a)[1]

    def norm(self):
        """canonical span list: empty spans dropped, adjacent pieces of one payload merged"""
        out = []
        for wid, lo, hi in self.spans:
            if hi == lo:
                continue
            if out and out[-1][0] == wid and out[-1][2] == lo:
                out[-1] = (wid, out[-1][1], hi)
            else:
                out.append((wid, lo, hi))
        return out

    def _no(self, *a, **k):
        raise ContentAccess("Rope content was inspected")

    __iter__ = __contains__ = __bytes__ = __hash__ = _no
    decode = encode = find = split = startswith = endswith = replace = _no

    def __eq__(self, o):
        if not isinstance(o, Rope):
            return False
        # fast path without case splits on empty spans: the same spans in the same order
        if len(self.spans) == len(o.spans):
            same = True
            for x, y in zip(self.spans, o.spans):
                if x[0] != y[0] or not (x[1] == y[1] and x[2] == y[2]):
                    same = False
                    break
            if same:
                return True
        return self.norm() == o.norm()

    def __ne__(self, o):
        return not self.__eq__(o)

    def __repr__(self):
        return "Rope(<%d spans>)" % len(self.spans)


def is_suffix_of_stream(total, stream, empty):
    """total == concatenation of stream[j:] for some j (content values: Rope or bytes).  For ropes the
    candidate with the matching number of spans is tried first, so the usual case needs no case split."""
    def cat(parts):
        out = empty
        for p in parts:
            out = out + p
        return out
    order = list(range(len(stream) + 1))
    if isinstance(total, Rope):
        j0 = len(stream) - len(total.spans)
        if 0 <= j0 <= len(stream):
            order.remove(j0)
            order.insert(0, j0)
    for j in order:
        if total == cat(stream[j:]):
            return True
    return False


# ---- stat result -------------------------------------------------------------------------------

class _Stat:
    _ORDER = ("st_mode", "st_ino", "st_dev", "st_nlink", "st_uid", "st_gid", "st_size", "st_atime",
              "st_mtime", "st_ctime")

    def __init__(self, mode, ino, size):
        self.st_mode = mode
        self.st_ino = ino
        self.st_dev = 1
        self.st_nlink = 1
        self.st_uid = 0
        self.st_gid = 0
        self.st_size = size
        self.st_atime = self.st_mtime = self.st_ctime = 0.0
        self.st_atime_ns = self.st_mtime_ns = self.st_ctime_ns = 0

    def __getitem__(self, i):
        return getattr(self, self._ORDER[i])

    def __len__(self):
        return 10


# ---- file object ----------------------------------------------------------------------------------

class FakeFile:
    """Buffered like CPython's BufferedWriter/BufferedRandom unless opened with buffering=0: write()
    only fills a per-handle buffer; the buffer reaches the inode (one mutating step, which may be
    the crash and may be torn) at flush(), close()/__exit__, seek(), truncate(), read(), or when a
    write does not fit into the buffer any more (then the old buffer is flushed first and a write
    larger than the buffer goes straight through).  Other handles and the disk after a crash never
    see buffered data."""

    def __init__(self, fs, ino, path, mode, bufsize=0):
        self.bufsize = bufsize      # 0 = unbuffered
        self._buf = None
        self.fs = fs
        self.ino = ino
        self.name = path
        self.mode = mode
        self.epoch = fs.epoch
        self.closed = False
        self._r = "r" in mode or "+" in mode
        self._w = "w" in mode or "a" in mode or "+" in mode
        self._app = "a" in mode
        self._text = "b" not in mode
        # position: either "at the end" (the common case for the code under test) or a number
        self._end = self._app or "w" in mode
        self._pos = 0

    # -- helpers
    def _live(self):
        self.fs._alive()
        if self.epoch != self.fs.epoch:
            raise ValueError("file object from before the crash used after the reboot")
        if self.closed:
            raise ValueError("I/O operation on closed file.")

    def _content(self):
        return self.fs.data[self.ino]

    def _size(self):
        return self.fs._len(self._content())

    def _store(self, data):
        fs = self.fs
        cur = self._content()
        if self._app or self._end:
            fs.data[self.ino] = fs._cat(cur, data)
            self._end = True
            return
        n = fs._len(data)
        size = fs._len(cur)
        pos = self._pos
        if pos > size:
            raise NotImplementedError("fakefs: write beyond the end of the file (holes)")
        if pos == size:
            fs.data[self.ino] = fs._cat(cur, data)
        else:
            head = cur[:pos]
            tail = cur[pos + n:] if pos + n < size else None
            fs.data[self.ino] = fs._cat(fs._cat(head, data), tail)
        self._pos = pos + n

    # -- file API
    def _raw_write(self, data):
        """one mutating step: data goes to the inode, or only its first `cut` units if this is the crash"""
        fs = self.fs
        n = len(data)
        k = fs._tick(("write", self.name, n))
        if k:
            cut = fs.cut
            if cut > 0:
                self._store(data if cut >= n else data[:cut])
            raise fs._fault(k)
        self._store(data)

    def _flush(self):
        if self._buf is not None:
            buf = self._buf
            self._buf = None
            self._raw_write(buf)

    def write(self, data):
        self._live()
        if not self._w:
            raise _io.UnsupportedOperation("not writable")
        if self._text != isinstance(data, str) and not isinstance(data, Rope):
            raise TypeError("write() argument has the wrong type for mode %r" % (self.mode,))
        n = len(data)
        if self.bufsize == 0:
            self._raw_write(data)
            return n
        have = self.fs._len(self._buf)
        if have + n <= self.bufsize:
            if n > 0:
                self._buf = self.fs._cat(self._buf, data)
            return n
        self._flush()
        if n > self.bufsize:
            self._raw_write(data)
        else:
            self._buf = data
        return n

    def truncate(self, size=None):
        self._live()
        if not self._w:
            raise _io.UnsupportedOperation("not writable")
        self._flush()
        if size is None:
            size = self.tell()
        self.fs._step(("truncate", self.name, size))
        cur = self._content()
        if size < self.fs._len(cur):
            self.fs.data[self.ino] = cur[:size] if size > 0 else None
        elif size > self.fs._len(cur):
            raise NotImplementedError("fakefs: extending truncate")
        return size

    def read(self, n=-1):
        self._live()
        if not self._r:
            raise _io.UnsupportedOperation("not readable")
        self._flush()
        cur = self._content()
        if cur is None or self._end:
            return self.fs._empty(self._text)
        if n is None or n < 0:
            if self._pos == 0:
                self._end = True
                return cur
            out = cur[self._pos:]
            self._end = True
            return out
        out = cur[self._pos:self._pos + n]
        self._pos = self._pos + len(out)
        return out

    def seek(self, off, whence=0):
        self._live()
        self._flush()
        if whence == 2:
            if off != 0:
                raise NotImplementedError("fakefs: seek relative to the end with an offset")
            self._end = True
            return self._size()
        if whence == 1:
            off = self.tell() + off
        self._end = False
        self._pos = off
        return off

    def tell(self):
        self._live()
        return (self._size() if self._end else self._pos) + self.fs._len(self._buf)

    def flush(self):
        self._live()
        self._flush()

    def fileno(self):
        self._live()
        return 1000 + self.ino

    def close(self):
        if self.closed:
            return
        self.closed = True
        if self.fs.crashed or self.epoch != self.fs.epoch:
            self._buf = None        # the process is dead: buffered data is lost
            return
        self._flush()

    def __enter__(self):
        self._live()
        return self

    def __exit__(self, *a):
        self.close()
        return False


# ---- os.path / os / glob namespaces --------------------------------------------------------------------

class _FakePath:
    sep = "/"
    join = staticmethod(_pp.join)
    split = staticmethod(_pp.split)
    splitext = staticmethod(_pp.splitext)
    basename = staticmethod(_pp.basename)
    dirname = staticmethod(_pp.dirname)
    normpath = staticmethod(_pp.normpath)
    isabs = staticmethod(_pp.isabs)
    commonprefix = staticmethod(_pp.commonprefix)

    def __init__(self, fs):
        self._fs = fs

    def abspath(self, p):
        if isinstance(p, bytes):
            return _pp.normpath(_pp.join(self._fs.cwd.encode(), p))
        return _pp.normpath(_pp.join(self._fs.cwd, p))

    realpath = abspath

    def exists(self, p):
        return self._fs.exists(p)

    def lexists(self, p):
        return self._fs.exists(p, follow=False)

    def isdir(self, p):
        return self._fs.isdir(p)

    def isfile(self, p):
        return self._fs.isfile(p)

    def islink(self, p):
        return self._fs.islink(p)

    def getsize(self, p):
        return self._fs.stat(p).st_size

    def getmtime(self, p):
        return self._fs.stat(p).st_mtime


class _FakeOS:
    """stands in for the `os` module; anything not modelled raises AttributeError loudly instead of
    reaching the real disk"""
    sep = "/"
    altsep = None
    curdir = "."
    pardir = ".."
    linesep = "\n"
    name = "posix"
    error = OSError
    F_OK, R_OK, W_OK, X_OK = _os.F_OK, _os.R_OK, _os.W_OK, _os.X_OK
    O_RDONLY, O_WRONLY, O_RDWR = _os.O_RDONLY, _os.O_WRONLY, _os.O_RDWR
    O_CREAT, O_EXCL, O_TRUNC, O_APPEND = _os.O_CREAT, _os.O_EXCL, _os.O_TRUNC, _os.O_APPEND
    fsencode = staticmethod(_os.fsencode)
    fsdecode = staticmethod(_os.fsdecode)
    fspath = staticmethod(_os.fspath)
    strerror = staticmethod(_os.strerror)

    def __init__(self, fs):
        self._fs = fs
        self.path = _FakePath(fs)
        for nm in ("rename", "replace", "remove", "unlink", "mkdir", "makedirs", "rmdir", "listdir",
                   "stat", "lstat", "access", "fsync", "chmod", "umask", "utime", "symlink", "readlink",
                   "kill", "getpid", "urandom", "getcwd", "fdopen"):
            setattr(self, nm, getattr(fs, nm))
        self.open = fs.os_open
        self.close = fs.os_close


class _FakeGlob:
    def __init__(self, fs):
        self.glob = fs.glob
        self.iglob = lambda *a, **k: iter(fs.glob(*a, **k))
        self.escape = _real_glob.escape
        self.has_magic = _real_glob.has_magic


# ---- the filesystem -----------------------------------------------------------------------------------

class FakeFS:
    def __init__(self, empty=b"", cwd="/"):
        self.empty = empty          # value read from an empty binary file (b"" / LBytes("") / Rope())
        self.cwd = cwd
        self.names = {}             # path -> inode number (regular files)
        self.data = {}              # inode -> content (None = empty)
        self.dirs = {"/"}
        self.links = {}             # path -> symlink target text
        self.dead = set()           # pids for which kill() reports ESRCH
        self.pid = 4242
        self.unwritable = set()     # paths for which access(W_OK) is False
        self.bufsize = 8192         # buffer of files opened without an explicit buffering argument
        self.steps = 0
        self.crash_at = -1
        self.cut = 0
        self.crashed = False
        self.interrupt_at = -1
        self.interrupt_exc = None
        self.interrupt_ops = ()
        self.interrupted = False
        self.epoch = 0
        self.log = []               # (epoch, step, op tuple) of every mutating call
        self._ino = 0
        self._fds = {}
        self._rand = 0
        self.os = _FakeOS(self)
        self.glob_module = _FakeGlob(self)

    # -- crash machinery
    def arm(self, crash_at=-1, cut=0):
        """(re)start counting mutating steps from 0; the step numbered crash_at crashes"""
        self.steps = 0
        self.crash_at = crash_at
        self.cut = cut

    def reboot(self, crash_at=-1, cut=0):
        """the machine comes back: the disk is as the crash left it, old file objects are dead"""
        self.crashed = False
        self.epoch += 1
        self._fds = {}
        self.arm(crash_at, cut)

    def _alive(self):
        if self.crashed:
            raise Crash()

    def arm_interrupt(self, at, exc, ops=("create", "truncate-open", "write")):
        """second fault kind: the mutating step numbered `at` (counted like crash steps), if its kind is in
        `ops`, raises ONE instance of `exc` (a BaseException subclass of the harness) instead of taking
        effect -- a write leaves its first `cut` units, as for a crash -- and the process LIVES ON: the
        filesystem keeps working, nothing is rebooted.  Models a signal-like interruption that the
        application survives."""
        self.interrupt_at = at
        self.interrupt_exc = exc
        self.interrupt_ops = tuple(ops)
        self.interrupted = False

    def _tick(self, what):
        """count one mutating step; 1 when this very step is the crash, 2 when it is the interruption"""
        self._alive()
        self.log.append((self.epoch, self.steps, what))
        if self.steps == self.crash_at:
            self.steps += 1
            self.crashed = True
            return 1
        if (self.interrupt_exc is not None and not self.interrupted and what[0] in self.interrupt_ops
                and self.steps == self.interrupt_at):
            self.steps += 1
            self.interrupted = True
            return 2
        self.steps += 1
        return 0

    def _fault(self, kind):
        return Crash() if kind == 1 else self.interrupt_exc()

    def _step(self, what):
        k = self._tick(what)
        if k:
            raise self._fault(k)

    # -- content helpers
    def _len(self, c):
        return 0 if c is None else len(c)

    def _cat(self, a, b):
        if a is None:
            return b
        if b is None:
            return a
        return a + b

    def _empty(self, text=False):
        return "" if text else self.empty

    # -- paths
    def _p(self, path):
        path = _os.fspath(path)
        if isinstance(path, bytes):
            path = _os.fsdecode(path)
        if not isinstance(path, str):
            raise TypeError("path should be string, bytes or os.PathLike")
        return _pp.normpath(_pp.join(self.cwd, path))

    def _kind(self, p, follow=True):
        if p in self.dirs:
            return "d"
        if p in self.names:
            return "f"
        if p in self.links:
            if not follow:
                return "l"
            t = _pp.normpath(_pp.join(_pp.dirname(p), self.links[p]))
            if t == p:
                return None
            return self._kind(t, True)
        return None

    def _need_parent(self, p):
        par = _pp.dirname(p)
        k = self._kind(par)
        if k is None:
            raise _err(_errno.ENOENT, p)
        if k != "d":
            raise _err(_errno.ENOTDIR, p)

    def _children(self, p):
        out = []
        for coll in (self.dirs, self.names, self.links):
            for q in coll:
                if q != p and _pp.dirname(q) == p:
                    out.append(_pp.basename(q))
        return sorted(out)

    def _new_inode(self, content=None):
        self._ino += 1
        self.data[self._ino] = content
        return self._ino

    # -- direct (harness side, never crashes, not counted) ------------------------------------------
    def put(self, path, content):
        p = self._p(path)
        self.names[p] = self._new_inode(content)

    def get(self, path):
        """content of a regular file, or None when there is no such file (empty file -> self.empty)"""
        p = self._p(path)
        if p not in self.names:
            return None
        c = self.data[self.names[p]]
        return self.empty if c is None else c

    def ls(self, path):
        return self._children(self._p(path))

    # -- open ------------------------------------------------------------------------------------------------
    def open(self, path, mode="r", buffering=-1, encoding=None, errors=None, newline=None, closefd=True,
             opener=None):
        self._alive()
        if isinstance(path, int):
            return self.fdopen(path, mode, buffering)
        p = self._p(path)
        flags = "".join(sorted(mode))
        if flags.replace("b", "").replace("+", "").replace("t", "") not in ("r", "w", "a"):
            raise ValueError("invalid mode: %r" % (mode,))
        k = self._kind(p)
        if k == "d":
            raise _err(_errno.EISDIR, p)
        if "r" in mode:
            if k is None:
                raise _err(_errno.ENOENT, p)
            return FakeFile(self, self.names[self._resolve(p)], p, mode, self._bufsize(buffering))
        self._need_parent(p)
        if k is None:
            self._step(("create", p))
            self.names[p] = self._new_inode()
        elif "w" in mode:
            ino = self.names[self._resolve(p)]
            if self.data[ino] is not None:
                self._step(("truncate-open", p))
                self.data[ino] = None
        return FakeFile(self, self.names[self._resolve(p)], p, mode, self._bufsize(buffering))

    def _bufsize(self, buffering):
        if buffering == 0:
            return 0
        return buffering if buffering > 1 else self.bufsize

    def _resolve(self, p):
        seen = 0
        while p in self.links and seen < 8:
            p = _pp.normpath(_pp.join(_pp.dirname(p), self.links[p]))
            seen += 1
        return p

    def os_open(self, path, flags, mode=0o777):
        self._alive()
        p = self._p(path)
        k = self._kind(p, follow=False)
        if flags & _os.O_CREAT:
            if k is not None:
                if flags & _os.O_EXCL:
                    raise _err(_errno.EEXIST, p)
            else:
                self._need_parent(p)
                self._step(("create", p))
                self.names[p] = self._new_inode()
        elif k is None:
            raise _err(_errno.ENOENT, p)
        if self._kind(p) == "d":
            raise _err(_errno.EISDIR, p)
        ino = self.names[self._resolve(p)]
        if flags & _os.O_TRUNC and self.data[ino] is not None:
            self._step(("truncate-open", p))
            self.data[ino] = None
        fd = 100 + len(self._fds)
        self._fds[fd] = (ino, p)
        return fd

    def fdopen(self, fd, mode="r", buffering=-1, *a, **k):
        self._alive()
        ino, p = self._fds[fd]
        f = FakeFile(self, ino, p, mode, self._bufsize(buffering))
        f._end = "a" in mode
        return f

    def os_close(self, fd):
        self._fds.pop(fd, None)

    # -- mutating os calls --------------------------------------------------------------------------------
    def rename(self, src, dst):
        self._alive()
        a, b = self._p(src), self._p(dst)
        ka = self._kind(a, follow=False)
        if ka is None:
            raise _err(_errno.ENOENT, a)
        self._need_parent(b)
        kb = self._kind(b, follow=False)
        if ka == "d":
            if kb is not None and (kb != "d" or self._children(b)):
                raise _err(_errno.ENOTEMPTY if kb == "d" else _errno.ENOTDIR, b)
        elif kb == "d":
            raise _err(_errno.EISDIR, b)
        size = self._len(self.data[self.names[a]]) if ka == "f" else 0
        self._step(("rename", a, b, size))
        if a == b:
            return
        self.names.pop(b, None)
        self.links.pop(b, None)
        if ka == "f":
            self.names[b] = self.names.pop(a)
        elif ka == "l":
            self.links[b] = self.links.pop(a)
        else:
            self.dirs.discard(b)
            pre = a + "/"
            for coll in (self.names, self.links):
                for q in [q for q in coll if q.startswith(pre)]:
                    coll[b + "/" + q[len(pre):]] = coll.pop(q)
            for q in [q for q in self.dirs if q == a or q.startswith(pre)]:
                self.dirs.discard(q)
                self.dirs.add(b + q[len(a):])

    replace = rename

    def remove(self, path):
        self._alive()
        p = self._p(path)
        k = self._kind(p, follow=False)
        if k is None:
            raise _err(_errno.ENOENT, p)
        if k == "d":
            raise _err(_errno.EISDIR, p)
        self._step(("remove", p))
        self.names.pop(p, None)
        self.links.pop(p, None)

    unlink = remove

    def mkdir(self, path, mode=0o777):
        self._alive()
        p = self._p(path)
        if self._kind(p, follow=False) is not None:
            raise _err(_errno.EEXIST, p)
        self._need_parent(p)
        self._step(("mkdir", p))
        self.dirs.add(p)

    def makedirs(self, path, mode=0o777, exist_ok=False):
        p = self._p(path)
        todo = []
        while self._kind(p) is None:
            todo.append(p)
            p = _pp.dirname(p)
        if not todo and not exist_ok:
            raise _err(_errno.EEXIST, p)
        for q in reversed(todo):
            self.mkdir(q)

    def rmdir(self, path):
        self._alive()
        p = self._p(path)
        k = self._kind(p, follow=False)
        if k is None:
            raise _err(_errno.ENOENT, p)
        if k != "d":
            raise _err(_errno.ENOTDIR, p)
        if self._children(p):
            raise _err(_errno.ENOTEMPTY, p)
        self._step(("rmdir", p))
        self.dirs.discard(p)

    def symlink(self, target, path, *a, **k):
        self._alive()
        p = self._p(path)
        if self._kind(p, follow=False) is not None:
            raise _err(_errno.EEXIST, p)
        self._need_parent(p)
        self._step(("symlink", p))
        self.links[p] = _os.fsdecode(target)

    # -- non-mutating os calls --------------------------------------------------------------------------------
    def readlink(self, path):
        self._alive()
        p = self._p(path)
        if p not in self.links:
            raise _err(_errno.ENOENT if self._kind(p) is None else _errno.EINVAL, p)
        t = self.links[p]
        return _os.fsencode(t) if isinstance(path, bytes) else t

    def kill(self, pid, sig):
        self._alive()
        if pid in self.dead:
            raise _err(_errno.ESRCH)
        return None

    def getpid(self):
        return self.pid

    def getcwd(self):
        return self.cwd

    def urandom(self, n):
        # deterministic "randomness": successive calls give different names
        self._rand += 1
        return bytes((self._rand * 37 + i) % 256 for i in range(n))

    def listdir(self, path="."):
        self._alive()
        p = self._p(path)
        k = self._kind(p)
        if k is None:
            raise _err(_errno.ENOENT, p)
        if k != "d":
            raise _err(_errno.ENOTDIR, p)
        names = self._children(self._resolve(p))
        if isinstance(path, bytes):
            return [_os.fsencode(n) for n in names]
        return names

    def stat(self, path, *a, **kw):
        self._alive()
        follow = kw.get("follow_symlinks", True)
        p = self._p(path)
        k = self._kind(p, follow=follow)
        if k is None:
            raise _err(_errno.ENOENT, p)
        if k == "d":
            return _Stat(_stat_mod.S_IFDIR | 0o755, 1, 0)
        if k == "l":
            return _Stat(_stat_mod.S_IFLNK | 0o777, 2, len(self.links[p]))
        ino = self.names[self._resolve(p)]
        return _Stat(_stat_mod.S_IFREG | 0o644, 10 + ino, self._len(self.data[ino]))

    def lstat(self, path, *a, **kw):
        return self.stat(path, follow_symlinks=False)

    def exists(self, path, follow=True):
        self._alive()
        try:
            return self._kind(self._p(path), follow=follow) is not None
        except TypeError:
            return False

    def isdir(self, path):
        self._alive()
        return self._kind(self._p(path)) == "d"

    def isfile(self, path):
        self._alive()
        return self._kind(self._p(path)) == "f"

    def islink(self, path):
        self._alive()
        return self._p(path) in self.links

    def access(self, path, mode, **kw):
        self._alive()
        p = self._p(path)
        if self._kind(p) is None:
            return False
        if mode & _os.W_OK and p in self.unwritable:
            return False
        return True

    def fsync(self, fd):
        self._alive()

    def chmod(self, path, mode, **kw):
        self._alive()
        if self._kind(self._p(path)) is None:
            raise _err(_errno.ENOENT, path)

    def utime(self, path, times=None, **kw):
        self.chmod(path, 0)

    def umask(self, mask):
        return 0o022

    def glob(self, pattern, **kw):
        self._alive()
        isb = isinstance(pattern, bytes)
        pat = _os.fsdecode(pattern)
        d, base = _pp.split(pat)
        if _real_glob.has_magic(d):
            raise NotImplementedError("fakefs.glob: magic only in the last path component")
        if not _real_glob.has_magic(base):
            out = [pat] if self._kind(self._p(pat), follow=False) is not None else []
        else:
            dp = self._p(d or ".")
            out = []
            if self._kind(dp) == "d":
                for n in self._children(dp):
                    if n.startswith(".") and not base.startswith("."):
                        continue
                    if _fnmatch.fnmatchcase(n, base):
                        out.append(_pp.join(d, n))
        return [_os.fsencode(x) for x in out] if isb else out


# ---- installation into the modules under test -----------------------------------------------------------

_FUNCS = ("rename", "replace", "remove", "unlink", "mkdir", "makedirs", "rmdir", "listdir", "stat", "lstat",
          "access", "fsync", "chmod", "umask", "utime", "symlink", "readlink", "kill", "getpid", "urandom",
          "getcwd", "fdopen")
_PATHFUNCS = ("exists", "lexists", "isdir", "isfile", "islink", "getsize", "getmtime", "abspath", "realpath")


def _mapping(fs):
    m = {id(_os): fs.os, id(_real_glob): fs.glob_module, id(_os.path): fs.os.path,
         id(_builtins.open): fs.open, id(_io.open): fs.open,
         id(_os.open): fs.os_open, id(_os.close): fs.os_close,
         id(_real_glob.glob): fs.glob, id(_real_glob.iglob): fs.glob_module.iglob}
    for nm in _FUNCS:
        m[id(getattr(_os, nm))] = getattr(fs, nm)
    for nm in _PATHFUNCS:
        m[id(getattr(_os.path, nm))] = getattr(fs.os.path, nm)
    return m


_MISSING = object()


class installed:
    """with installed(fs, module, ..., extra={module: {name: value}}): ...  -- every module-level name
    of the given modules that is bound to the real os / glob / open (or to a function taken from them)
    is rebound to the fake; `open` is added where the module relies on the builtin.  Restored on exit,
    whatever happens (Crash, CrossHair control flow)."""

    def __init__(self, fs, *modules, extra=None):
        self.fs = fs
        self.modules = modules
        self.extra = extra or {}
        self.saved = []

    def __enter__(self):
        m = _mapping(self.fs)
        for mod in self.modules:
            d = mod.__dict__
            for k in list(d):
                if k.startswith("__"):
                    continue
                new = m.get(id(d[k]))
                if new is not None:
                    self.saved.append((d, k, d[k]))
                    d[k] = new
            if "open" not in d:
                self.saved.append((d, "open", _MISSING))
                d["open"] = self.fs.open
        for mod, names in self.extra.items():
            d = mod.__dict__
            for k, v in names.items():
                self.saved.append((d, k, d.get(k, _MISSING)))
                d[k] = v
        return self.fs

    def __exit__(self, *exc):
        for d, k, old in reversed(self.saved):
            if old is _MISSING:
                d.pop(k, None)
            else:
                d[k] = old
        self.saved = []
        return False


# ---- validation of the model against the real operating system ----------------------------------------------

def _script(o, op, g, root):
    """one scripted scenario run through an (os, open, glob) triple; returns the observation log"""
    out = []

    def att(fn, *a):
        try:
            r = fn(*a)
            out.append(("ok", r if isinstance(r, (int, str, bytes, list, bool, type(None))) else "obj"))
        except OSError as e:
            out.append(("err", e.errno))

    j = _pp.join
    att(o.mkdir, j(root, "d"))
    att(o.mkdir, j(root, "d"))
    att(o.listdir, j(root, "d"))
    with op(j(root, "d", "a"), "wb") as f:
        out.append(f.write(b"hello"))
        out.append(f.tell())
    att(o.path.getsize, j(root, "d", "a"))
    with op(j(root, "d", "a"), "ab") as f:
        f.write(b"XY")
        out.append(f.tell())
    with op(j(root, "d", "a"), "rb") as f:
        out.append(f.read())
    with op(j(root, "d", "a"), "rb+") as f:
        f.seek(0, 2)
        out.append(f.tell())
        f.write(b"!")
        f.seek(0)
        out.append(f.read(3))
        out.append(f.read())
    with op(j(root, "d", "a"), "rb+") as f:
        f.seek(2)
        f.write(b"__")
        f.seek(0)
        out.append(f.read())
        f.seek(4)
        f.truncate()
        f.seek(0)
        out.append(f.read())
    att(o.rename, j(root, "d", "a"), j(root, "d", "b"))
    att(o.rename, j(root, "d", "a"), j(root, "d", "c"))
    att(o.path.exists, j(root, "d", "a"))
    att(o.path.exists, j(root, "d", "b"))
    with op(j(root, "d", "c.new"), "wb") as f:
        f.write(b"1")
    with op(j(root, "d", "e.rpl"), "wb") as f:
        pass
    att(lambda: sorted(o.listdir(j(root, "d"))))
    att(lambda: sorted(g.glob(j(root, "d", "*.new"))) == [j(root, "d", "c.new")])
    att(lambda: [_pp.basename(x) for x in sorted(g.glob(j(root, "d", "*.*")))])
    att(lambda: sorted(g.glob(j(root, "d", "zz*"))))
    att(o.rename, j(root, "d", "c.new"), j(root, "d", "b"))
    with op(j(root, "d", "b"), "rb") as f:
        out.append(f.read())
    att(o.remove, j(root, "d", "nope"))
    att(o.rmdir, j(root, "d"))
    att(o.remove, j(root, "d"))
    att(o.remove, j(root, "d", "b"))
    att(o.unlink, j(root, "d", "e.rpl"))
    att(o.rmdir, j(root, "d"))
    att(o.listdir, j(root, "d"))
    att(lambda: op(j(root, "d", "x"), "wb"))
    att(lambda: op(j(root, "nofile"), "rb"))
    att(o.access, root, o.W_OK)
    att(o.access, j(root, "nofile"), o.W_OK)
    att(o.path.isdir, root)
    att(o.path.isfile, root)
    # O_EXCL create, as FilePath.create does
    fl = o.O_EXCL | o.O_CREAT | o.O_RDWR
    fd = o.open(j(root, "t"), fl)
    with o.fdopen(fd, "w+b") as f:
        f.write(b"tmp")
    att(o.open, j(root, "t"), fl)
    att(o.path.getsize, j(root, "t"))
    att(lambda: o.stat(j(root, "t")).st_size)
    att(lambda: _stat_mod.S_ISREG(o.stat(j(root, "t")).st_mode))
    att(lambda: _stat_mod.S_ISDIR(o.stat(root)[_stat_mod.ST_MODE]))
    # symlink based lock primitives
    att(o.symlink, "123", j(root, "L"))
    att(o.symlink, "456", j(root, "L"))
    att(o.readlink, j(root, "L"))
    att(o.path.exists, j(root, "L"))
    att(o.path.islink, j(root, "L"))
    att(o.remove, j(root, "L"))
    att(o.readlink, j(root, "L"))
    att(o.remove, j(root, "L"))
    att(o.remove, j(root, "t"))
    return out


def _bufscript(o, op, root):
    """buffering: what a second reader / stat sees after each call (explicit 16 unit buffer, so that the
    real file objects and the model use the same size)"""
    out = []
    p = _pp.join(root, "buf")

    def see():
        with op(p, "rb") as r:
            out.append((o.stat(p).st_size, r.read()))

    f = op(p, "wb", 16)
    f.write(b"abc")
    see()                       # nothing yet
    f.write(b"defgh")
    out.append(f.tell())
    see()
    f.flush()
    see()                       # 8 bytes
    f.write(b"x" * 10)
    see()
    f.write(b"y" * 10)          # does not fit: the ten x go out, the ten y are buffered
    see()
    f.write(b"z" * 40)          # larger than the buffer: y flushed, z straight through
    see()
    f.write(b"q")
    see()
    f.seek(0, 2)                # seek flushes
    see()
    f.write(b"r")
    out.append(f.tell())
    f.close()
    see()
    f.close()
    with op(p, "ab", 0) as u:   # unbuffered: visible at once
        u.write(b"1")
        see()
    with op(p, "rb+", 16) as g:
        g.write(b"AB")
        see()
        out.append(g.read(3))   # read flushes first
        see()
        g.write(b"CD")
        g.truncate()
        see()
    fd = o.open(_pp.join(root, "buf2"), o.O_EXCL | o.O_CREAT | o.O_RDWR)
    with o.fdopen(fd, "w+b", 16) as h:
        h.write(b"tmp")
        out.append(o.stat(_pp.join(root, "buf2")).st_size)
    out.append(o.stat(_pp.join(root, "buf2")).st_size)
    o.remove(p)
    o.remove(_pp.join(root, "buf2"))
    return out


def selftest():
    """the same script against the real OS (in a temp dir) and against the model: logs must agree"""
    import shutil
    import tempfile
    real_root = tempfile.mkdtemp(prefix="fakefs_selftest_")
    try:
        a = _script(_os, _builtins.open, _real_glob, real_root)
        a += _bufscript(_os, _builtins.open, real_root)
    finally:
        shutil.rmtree(real_root, ignore_errors=True)
    fs = FakeFS()
    fs.dirs.add("/r")
    b = _script(fs.os, fs.open, fs.glob_module, "/r")
    b += _bufscript(fs.os, fs.open, "/r")
    if a != b:
        diff = [(i, x, y) for i, (x, y) in enumerate(zip(a, b)) if x != y]
        raise AssertionError("fakefs disagrees with the real OS: %r" % (diff[:4],))
    # crash machinery: buffered data is lost, a torn flush leaves a prefix, later calls keep raising
    fs = FakeFS()
    fs.arm(crash_at=1)
    f = fs.open("/y", "wb")
    f.write(b"abcdef")          # buffered only
    try:
        fs.rename("/y", "/z")   # step 1: the crash
        raise AssertionError("no crash")
    except Crash:
        pass
    f.close()
    fs.reboot()
    assert fs.get("/y") == b"" and fs.get("/z") is None
    fs = FakeFS()
    fs.arm(crash_at=1, cut=2)
    try:
        with fs.open("/x", "wb") as f:
            f.write(b"abcdef")
        raise AssertionError("no crash")
    except Crash:
        pass
    assert fs.crashed and fs.get("/x") == b"ab"
    try:
        fs.remove("/x")
        raise AssertionError("dead process touched the disk")
    except Crash:
        pass
    fs.reboot()
    assert fs.get("/x") == b"ab" and not fs.crashed
    class _Int(BaseException):
        pass
    fs = FakeFS()
    fs.arm(-1, cut=1)
    fs.arm_interrupt(1, _Int)
    try:
        with fs.open("/i", "wb") as f:
            f.write(b"abc")
        raise AssertionError("no interrupt")
    except _Int:
        pass
    assert not fs.crashed and fs.get("/i") == b"a"
    fs.remove("/i")             # the process lives on
    with fs.open("/i", "wb") as f:
        f.write(b"xyz")
    assert fs.get("/i") == b"xyz"
    r = Rope.payload(0, 3) + Rope.payload(1, 2)
    assert len(r) == 5 and r[:4].norm() == [(0, 0, 3), (1, 0, 1)] and r[4:].norm() == [(1, 1, 2)]
    assert r == Rope.payload(0, 3) + Rope.payload(2, 0) + Rope.payload(1, 2) and r != Rope.payload(0, 3)
    assert is_suffix_of_stream(Rope.payload(1, 2), [Rope.payload(0, 3), Rope.payload(1, 2)], Rope())
    assert not is_suffix_of_stream(Rope.payload(0, 3), [Rope.payload(0, 3), Rope.payload(1, 2)], Rope())
    assert is_suffix_of_stream(b"bb", [b"aaa", b"bb"], b"") and not is_suffix_of_stream(b"ab", [b"aaa", b"bb"], b"")
    return len(a) + 4
