import argparse
import json
import os
import sys


def main():
    ap = argparse.ArgumentParser()
    ap.add_argument("pid")
    ap.add_argument("--tier", default=os.environ.get("VERIF_TIER", "quick"), choices=["quick", "thorough"])
    ap.add_argument("--replay")
    a = ap.parse_args()
    os.environ["VERIF_TIER"] = a.tier
    from vlib import runner
    modname = "props." + a.pid.lower()
    if a.replay:
        rec = json.load(open(a.replay))
        rr = runner.replay_file(a.replay)
        print(json.dumps(rr))
        if rr.get("reproduced"):
            print("VIOLATION property=%s replay=%s" % (rec.get("property", a.pid), a.replay))
            sys.exit(1)
        sys.exit(0)
    seed = int(os.environ.get("VERIF_SEED", "0") or 0)
    sys.exit(runner.run_property(modname, a.tier, seed))


if __name__ == "__main__":
    # exit 1 is reserved for "VIOLATION line printed"; a crash of the machinery itself (e.g. a props
    # module that cannot be loaded against a changed tree) is a harness error: exit 2.
    try:
        main()
    except SystemExit:
        raise
    except BaseException:
        import traceback
        traceback.print_exc()
        print("HARNESS-ERROR: the check machinery crashed (see traceback); no verdict")
        sys.exit(2)
