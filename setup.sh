#!/bin/bash
# Build the overlay venv used by every check (offline; idempotent; file-locked).
set -e
cd "$(dirname "$0")"
exec 9>.setup.lock
flock 9
if [ -x .venv/bin/python ] && .venv/bin/python -c "import crosshair, z3, cvc5, jsonschema, twisted" 2>/dev/null; then
  exit 0
fi
rm -rf .venv
/venv/bin/python -m venv .venv
echo "import site; site.addsitedir('/venv/lib/python3.12/site-packages')" > .venv/lib/python3.12/site-packages/_base.pth
PIP_NO_INDEX=1 .venv/bin/pip install -q --no-index --find-links /opt/veriftools/wheels crosshair-tool z3-solver cvc5 jsonschema
.venv/bin/python -c "import crosshair, z3, cvc5, jsonschema, twisted; print('verif venv ok', twisted.__file__)"
