#!/usr/bin/env python3
"""tools/keep_seed.py PID '<verdict line from try_seed.sh>' : copy a confirmed seed into /verif/seeded/PID/"""
import json, os, re, shutil, sys, time
pid, verdict = sys.argv[1], sys.argv[2]
src = sys.argv[3] if len(sys.argv) > 3 else '/root/scratch/seeds/%s' % pid
sub = sys.argv[4] if len(sys.argv) > 4 else ''
dst = '/verif/seeded/%s%s' % (pid, ('/' + sub) if sub else '')
os.makedirs(dst, exist_ok=True)
for f in ('patch.diff', 'demo.py'):
    shutil.copy(os.path.join(src, f), os.path.join(dst, f))
meta = json.load(open(os.path.join(src, 'meta.json')))
m = re.search(r'demo_clean_rc=(\d+) demo_mutant_rc=(\d+) check_rc=(\d+) (\d+) violations', verdict)
meta.update({
    "property": pid,
    "origin": "independent sub-agent given only the property text and a scratch worktree of /repo (nothing from /verif)",
    "confirmed_by_me": {
        "how": "tools/try_seed.sh: fresh worktree of /repo HEAD; demo.py on /repo (must exit 0) and on the patched worktree (must exit 1); then ./check %s --tier quick with VERIF_REPO=<patched worktree>; worktree removed" % pid,
        "demo_exit_clean_tree": int(m.group(1)), "demo_exit_patched_tree": int(m.group(2)),
        "check_exit_on_patched_tree": int(m.group(3)), "violation_lines": int(m.group(4)),
        "detected_by_check": int(m.group(3)) == 1,
        "verdict_line": verdict, "date": time.strftime("%Y-%m-%d %H:%M"),
        "repo_head": os.popen("git -C /repo rev-parse --short HEAD").read().strip(),
    },
})
json.dump(meta, open(os.path.join(dst, 'meta.json'), 'w'), indent=1)
print("kept", dst, "detected" if int(m.group(3)) == 1 else "MISSED")
