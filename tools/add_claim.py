#!/usr/bin/env python3
"""tools/add_claim.py ID level engine 'text' 'note' ['technique']"""
import json, os, sys
HERE = os.path.dirname(os.path.dirname(os.path.abspath(__file__)))
p = os.path.join(HERE, "tools", "claims.json")
d = json.load(open(p))
pid, level, engine, text, note = sys.argv[1:6]
e = {"level": level, "engine": engine, "text": text, "note": note}
if len(sys.argv) > 6:
    e["technique"] = sys.argv[6]
d[pid] = e
json.dump(d, open(p, "w"), indent=1, sort_keys=True)
print("claimed:", sorted(d))
