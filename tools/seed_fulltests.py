#!/usr/bin/env python3
"""tools/seed_fulltests.py <seed dir> [<seed dir> ...]

Confirms "the seeded change still passes the existing tests" (SEEDTEST_MODE=relevant: only the test
packages of the changed subpackages and their main dependants, see below): for every seed directory (holding
patch.diff) a fresh scratch worktree of /repo HEAD is made under /tmp, the patch applied, the PINNED
test command of /root/.vp/BASELINE.json run in it (whole suite, junit), and the result compared with
BASELINE.json's stable_pass list.  Stable tests that did not pass are re-run once, file by file, to
separate load-induced flakes from real failures.  One JSON line per seed is appended to
/root/scratch/seedtests/summary.jsonl; the worktree and its junit files are removed.
Nothing is written to /repo's working tree or to /verif.
"""
import json, os, subprocess, sys, time
import xml.etree.ElementTree as ET

OUT = "/root/scratch/seedtests"
os.makedirs(OUT, exist_ok=True)
BASE = json.load(open("/root/.vp/BASELINE.json"))
STABLE = set(BASE["stable_pass"])


def passed_in(xml):
    ok = set()
    for tc in ET.parse(xml).getroot().iter("testcase"):
        if not any(ch.tag in ("failure", "error", "skipped") for ch in tc):
            ok.add("%s::%s" % (tc.get("classname"), tc.get("name")))
    return ok


def file_of(wt, classname):
    parts = classname.split(".")
    for n in range(len(parts), 0, -1):
        p = os.path.join(wt, *parts[:n]) + ".py"
        if os.path.isfile(p):
            return os.path.relpath(p, wt)
    return None


def run(seed):
    label = os.path.relpath(seed, "/verif/seeded").replace("/", "_") if seed.startswith("/verif/seeded") else \
        "new_" + os.path.basename(os.path.dirname(seed.rstrip("/") + "/x")) + "_" + os.path.basename(seed.rstrip("/"))
    wt = "/tmp/seedfull_%s" % label
    subprocess.run(["git", "-C", "/repo", "worktree", "remove", "--force", wt], capture_output=True)
    subprocess.run(["git", "-C", "/repo", "worktree", "add", "--detach", wt, "HEAD"], capture_output=True, check=True)
    res = {"seed": seed, "label": label, "repo_head": subprocess.run(
        ["git", "-C", "/repo", "rev-parse", "--short", "HEAD"], capture_output=True, text=True).stdout.strip()}
    try:
        ap = subprocess.run(["git", "-C", wt, "apply", os.path.join(seed, "patch.diff")], capture_output=True, text=True)
        if ap.returncode:
            ap = subprocess.run(["git", "-C", wt, "apply", "-C1", os.path.join(seed, "patch.diff")], capture_output=True, text=True)
        if ap.returncode:
            res["error"] = "patch does not apply: " + ap.stderr[:200]
            return res
        env = dict(os.environ, PYTHONPATH=wt + "/src", PYTHONDONTWRITEBYTECODE="1")
        xml = os.path.join(OUT, label + ".xml")
        t0 = time.time()
        targets, stable = [], STABLE
        if os.environ.get("SEEDTEST_MODE") == "relevant":
            # the test packages of every changed file's subpackage + the general src/twisted/test
            # (+ the main dependants of twisted.internet); compared with the stable tests living there
            changed = subprocess.run(["git", "-C", wt, "diff", "--name-only"], capture_output=True, text=True).stdout.split()
            pk = {"test"}
            for c in changed:
                parts = c.split("/")
                if len(parts) > 3 and parts[:2] == ["src", "twisted"]:
                    pk.add(parts[2])
            if os.environ.get("SEEDTEST_DEPENDANTS") == "1":
                if "internet" in pk:
                    pk |= {"protocols", "web", "application", "names", "mail", "words", "conch", "spread", "_threads", "logger"}
                if "python" in pk or "logger" in pk:
                    pk |= {"logger", "application", "web"}
                if "protocols" in pk:
                    pk |= {"web", "mail", "words", "conch", "spread", "names"}
                if "cred" in pk:
                    pk |= {"web", "mail", "words", "conch", "spread"}
            else:   # one level of main dependants only
                if "internet" in pk:
                    pk |= {"protocols", "application"}
                if "cred" in pk:
                    pk |= {"web"}
            targets = sorted("src/twisted/" + x for x in pk if os.path.isdir(os.path.join(wt, "src/twisted", x)))
            pref = tuple(t.replace("/", ".") + "." for t in targets)
            stable = {t for t in STABLE if t.startswith(pref)}
            res["mode"] = "relevant"; res["targets"] = targets
        else:
            res["mode"] = "full"
        subprocess.run(["/venv/bin/python", "-m", "pytest", "-ra", "-q", "-p", "no:cacheprovider", "--timeout=900",
                        "--continue-on-collection-errors", "--junitxml=" + xml] + targets, cwd=wt, env=env,
                       stdout=subprocess.DEVNULL, stderr=subprocess.DEVNULL)
        res["wall_s"] = round(time.time() - t0)
        # make sure the run used the patched tree
        chk = subprocess.run(["/venv/bin/python", "-c", "import twisted;print(twisted.__file__)"], cwd=wt, env=env,
                             capture_output=True, text=True).stdout.strip()
        res["twisted_from"] = chk
        ok = passed_in(xml)
        missing = sorted(stable - ok)
        res["stable"] = len(stable); res["passed"] = len(ok); res["missing_first_run"] = missing[:50]
        still = missing
        if missing and len(missing) < 400:
            files = sorted({f for f in (file_of(wt, m.split("::")[0]) for m in missing) if f})
            xml2 = os.path.join(OUT, label + ".rerun.xml")
            subprocess.run(["/venv/bin/python", "-m", "pytest", "-q", "-p", "no:cacheprovider", "--timeout=900",
                            "--junitxml=" + xml2] + files, cwd=wt, env=env,
                           stdout=subprocess.DEVNULL, stderr=subprocess.DEVNULL)
            ok2 = passed_in(xml2) if os.path.exists(xml2) else set()
            still = sorted(set(missing) - ok2)
            if os.path.exists(xml2):
                os.unlink(xml2)
        res["missing_after_rerun"] = still[:50]
        res["n_missing_after_rerun"] = len(still)
        res["passes_existing_tests"] = not still
        os.unlink(xml)
    finally:
        subprocess.run(["git", "-C", "/repo", "worktree", "remove", "--force", wt], capture_output=True)
    return res


for s in sys.argv[1:]:
    r = run(s.rstrip("/"))
    r["date"] = time.strftime("%Y-%m-%d %H:%M")
    with open(os.path.join(OUT, "summary.jsonl"), "a") as f:
        f.write(json.dumps(r) + "\n")
    print(r["label"], r.get("passes_existing_tests"), r.get("n_missing_after_rerun"), r.get("error", ""), flush=True)
