#!/bin/bash
# tools/smoke.sh [tier] [ids...] : machinery smoke test of a tier WITHOUT running solver tasks
# (VERIF_DRY=1: shard generation, vector validation in the real and the symbolic world, known-finding
# witnesses).  Evidence goes to a scratch directory, never to /verif/evidence.  Prints rc per property.
cd "$(dirname "$0")/.."
TIER=${1:-thorough}; shift
IDS="$@"
[ -z "$IDS" ] && IDS=$(python3 -c "import json; print(' '.join(c['property_id'] for c in json.load(open('MANIFEST.json'))['checks']))")
export VERIF_DRY=1 VERIF_EVIDENCE_DIR=${VERIF_EVIDENCE_DIR:-$(mktemp -d)}
for pid in $IDS; do
  out=$(timeout 900 ./check $pid --tier $TIER 2>&1); rc=$?
  echo "$pid rc=$rc $(echo "$out" | grep -m1 'tier=')"
  [ $rc -ne 0 ] && echo "$out" | grep -v "^  " | tail -5
done
