#!/bin/bash
# tools/try_seed.sh <PID> [seed dir]  — verify a seeded change in a scratch worktree and run the check against it
# (never touches /repo's working tree).  Prints a one-line verdict.
PID=$1; SD=${2:-/root/scratch/seeds/$PID}; WT=/tmp/seedtry_$PID
git -C /repo worktree remove --force $WT >/dev/null 2>&1
git -C /repo worktree add --detach $WT HEAD >/dev/null 2>&1 || { echo "$PID worktree failed"; exit 2; }
clean_rc=$(cd $SD && PYTHONPATH=/repo/src timeout 300 /venv/bin/python demo.py >/dev/null 2>&1; echo $?)
if ! git -C $WT apply $SD/patch.diff 2>/tmp/seedtry_$PID.err; then echo "$PID PATCH-DOES-NOT-APPLY $(head -1 /tmp/seedtry_$PID.err)"; git -C /repo worktree remove --force $WT; exit 2; fi
mut_rc=$(cd $SD && PYTHONPATH=$WT/src timeout 300 /venv/bin/python demo.py >/dev/null 2>&1; echo $?)
out=$(cd /verif && VERIF_EVIDENCE_DIR=/tmp/seedtry_evidence VERIF_REPO=$WT VERIF_NPROC=${VERIF_NPROC:-8} ./check $PID --tier ${TIER:-quick} 2>&1); rc=$?
echo "$out" > /tmp/seedtry_$PID.log
git -C /repo worktree remove --force $WT
echo "$PID demo_clean_rc=$clean_rc demo_mutant_rc=$mut_rc check_rc=$rc $(echo "$out" | grep -c VIOLATION) violations; $(echo "$out" | grep -m1 'tier=')"
