#!/usr/bin/env python3
"""Regenerate the generated sections of DESIGN.md (between <!-- GEN:x --> markers) from
props/*.py (as-built bounds), tools/claims.json and seeded/*/meta.json."""
import glob, importlib, json, os, re, sys
HERE = os.path.dirname(os.path.dirname(os.path.abspath(__file__)))
sys.path.insert(0, HERE); sys.path.insert(0, '/repo/src')
os.environ.setdefault('VERIF_MODE', 'real')
claims = json.load(open(os.path.join(HERE, 'tools/claims.json')))
def esc(s): return str(s).replace('|', '\\|').replace('\n', ' ')
rows = ["| id | level | engine | harnesses (quick shards) | bounds as built | outside the claim |", "|---|---|---|---|---|---|"]
for pid in sorted(claims):
    try:
        m = importlib.import_module('props.' + pid.lower())
        hs = ", ".join("%s (%d)" % (h.name, len(h.shards('quick'))) for h in m.HARNESSES if 'quick' in h.tiers)
        cust = ", ".join(c.__name__ for c in getattr(m, 'CUSTOM', []))
        if cust: hs += "; SMT: " + cust
        bt = getattr(m, 'BOUNDS_TEXT', '')
        out = "; ".join(getattr(m, 'OUTSIDE', []))
    except Exception as e:
        hs, bt, out = "(import failed: %s)" % type(e).__name__, '', ''
    rows.append("| %s | %s | %s | %s | %s | %s |" % (pid, claims[pid]['level'], claims[pid].get('engine', 'xh'), esc(hs), esc(bt)[:700], esc(out)[:500]))
asbuilt = "\n".join(rows)
srows = ["| property | seeded change (by an independent agent) | needs, to manifest | detected by `./check <id>` (quick) | note |", "|---|---|---|---|---|"]
for mp in sorted(glob.glob(os.path.join(HERE, 'seeded', '*', 'meta.json')) + glob.glob(os.path.join(HERE, 'seeded', '*', '*', 'meta.json'))):
    m = json.load(open(mp))
    c = m.get('confirmed_by_me', {})
    rel = os.path.relpath(os.path.dirname(mp), HERE)
    srows.append("| %s (`%s`) | %s | %s | %s | %s |" % (m.get('property'), rel, esc(m.get('description', ''))[:420], esc(m.get('needs_to_manifest', ''))[:260],
                 "**yes** (%d VIOLATION lines)" % c.get('violation_lines', 0) if c.get('detected_by_check') else "no", esc(c.get('history', ''))[:420]))
seeds = "\n".join(srows)
p = os.path.join(HERE, 'DESIGN.md')
s = open(p).read()
for tag, body in (('ASBUILT', asbuilt), ('SEEDS', seeds)):
    a, b = '<!-- GEN:%s -->' % tag, '<!-- /GEN:%s -->' % tag
    if a in s:
        s = s[:s.index(a) + len(a)] + "\n" + body + "\n" + s[s.index(b):]
open(p, 'w').write(s)
print("tables regenerated:", len(rows) - 2, "properties,", len(srows) - 2, "seeds")
