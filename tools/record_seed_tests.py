#!/usr/bin/env python3
"""tools/record_seed_tests.py: copy my own test confirmation of each kept seed (tools/seed_fulltests.py
results in /root/scratch/seedtests/summary.jsonl) into its meta.json under confirmed_by_me.existing_tests."""
import json, os
res = {}
for l in open('/root/scratch/seedtests/summary.jsonl'):
    r = json.loads(l); res[r['seed']] = r
n = 0
for seed, r in res.items():
    p = os.path.join(seed, 'meta.json')
    if not os.path.exists(p) or 'passes_existing_tests' not in r:
        continue
    m = json.load(open(p))
    m.setdefault('confirmed_by_me', {})['existing_tests'] = {
        "how": "tools/seed_fulltests.py: patch applied in a fresh worktree of /repo %s; the pinned pytest command of BASELINE.json run on %s; compared with BASELINE.json stable_pass restricted to those directories (stable tests not passing are re-run once file by file)" % (
            r.get('repo_head'), 'the whole suite' if r.get('mode') == 'full' else ', '.join(r.get('targets', []))),
        "stable_tests_compared": r.get('stable'), "stable_tests_not_passing": r.get('n_missing_after_rerun'),
        "not_passing": r.get('missing_after_rerun', []), "passes_existing_tests": r.get('passes_existing_tests'),
        "date": r.get('date')}
    json.dump(m, open(p, 'w'), indent=1); n += 1
print("recorded", n, "of", len(res))
