#!/usr/bin/env python3
"""Regenerate MANIFEST.json from tools/claims.json (claimed checks) and tools/na.json."""
import json
import os
import sys

HERE = os.path.dirname(os.path.dirname(os.path.abspath(__file__)))
claims = json.load(open(os.path.join(HERE, "tools", "claims.json")))
na = json.load(open(os.path.join(HERE, "tools", "na.json")))
props = [json.loads(l)["id"] for l in open(os.path.join(HERE, "properties.jsonl"))]

checks = []
for pid in props:
    c = claims.get(pid)
    if not c:
        continue
    if not os.path.exists(os.path.join(HERE, "props", pid.lower() + ".py")):
        print("warning: no props module for", pid, file=sys.stderr)
        continue
    checks.append({
        "property_id": pid,
        "quick_cmd": "./check %s --tier quick" % pid,
        "thorough_cmd": "./check %s --tier thorough" % pid,
        "evidence_file": "/verif/evidence/%s.json" % pid,
        "replay_cmd_template": "./check %s --replay {path}" % pid,
        "engine": c.get("engine", "xh"),
        "level_claimed": {"category": c["level"], "text": c["text"], "design_ref": "DESIGN.md section 4, " + pid},
        "level_note": c["note"],
        "technique": c.get("technique", "symbolic execution of the real code (CrossHair + z3), bounded, "
                                        "counterexamples replayed concretely"),
    })
claimed = {c["property_id"] for c in checks}
not_applicable = [{"property_id": p, "reason": na.get(p, "no check built yet for this property (work in progress); "
                                                      "not claimed")} for p in props if p not in claimed]
man = {
    "version": 1,
    "setup_cmd": "./setup.sh",
    "hooks": {
        "guard": "TWISTED_VERIF",
        "enable": "no source hooks are needed: all instrumentation is done from the harness side (rebinding "
                  "module-level names / AST lift at run time); TWISTED_VERIF is reserved and unused",
        "baseline_off_cmd": "cd /repo && /venv/bin/python -m pytest -ra -q -p no:cacheprovider --timeout=900 "
                            "--continue-on-collection-errors",
        "source_commits": [],
        "add_only": True,
    },
    "engines": [
        {"name": "xh", "path": "vlib/worker.py", "kind_free_text": "CrossHair 0.0.110 driven in-process (z3 5.1): "
         "symbolic execution of the real twisted callables from harness functions with PEP-316 conditions",
         "serves_properties": sorted(claimed)},
        {"name": "lift", "path": "vlib/lift.py", "kind_free_text": "AST lift of real byte-handling source onto "
         "LBytes (bytes semantics over symbolic latin-1 text), regenerated from /repo on every run",
         "serves_properties": [p for p in sorted(claimed) if claims[p].get("engine") == "lift"]},
        {"name": "smt", "path": "vlib/smt.py", "kind_free_text": "Python-AST to SMT translation of integer "
         "kernels; z3 and cvc5 must agree", "serves_properties": [p for p in sorted(claimed) if claims[p].get("engine") == "smt"]},
    ],
    "checks": checks,
    "not_applicable": not_applicable,
    "notes": "All checks: ./check <ID> --tier quick|thorough.  Exit 0 = held on everything explored; 1 = VIOLATION "
             "(replayed against the real code); 2 = harness/engine error.  See DESIGN.md.",
}
json.dump(man, open(os.path.join(HERE, "MANIFEST.json"), "w"), indent=1)
print("claimed", len(checks), "not_applicable", len(not_applicable))
try:
    import jsonschema
    jsonschema.validate(man, json.load(open("/root/.vp/MANIFEST.schema.json")))
    print("MANIFEST valid")
except ImportError:
    pass
