#!/bin/bash
# tools/run_all.sh [tier] : run every claimed check in sequence, print rc and wall per property
cd "$(dirname "$0")/.."
TIER=${1:-quick}
for pid in $(python3 -c "import json; print(' '.join(c['property_id'] for c in json.load(open('MANIFEST.json'))['checks']))"); do
  t0=$(date +%s)
  out=$(./check $pid --tier $TIER 2>&1); rc=$?
  t1=$(date +%s)
  echo "$pid rc=$rc wall=$((t1-t0))s $(echo "$out" | grep -m1 'tier=' ) $(echo "$out" | grep -c 'KNOWN-FINDING') known"
  [ $rc -ne 0 ] && echo "$out" | tail -5
done
