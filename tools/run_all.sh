#!/bin/bash
# tools/run_all.sh [tier] [ids...] : run claimed checks in sequence, print rc and wall per property
cd "$(dirname "$0")/.."
TIER=${1:-quick}; shift
IDS="$@"
[ -z "$IDS" ] && IDS=$(python3 -c "import json; print(' '.join(c['property_id'] for c in json.load(open('MANIFEST.json'))['checks']))")
for pid in $IDS; do
  t0=$(date +%s)
  out=$(timeout ${RUNALL_TIMEOUT:-3000} ./check $pid --tier $TIER 2>&1); rc=$?
  t1=$(date +%s)
  echo "$pid rc=$rc wall=$((t1-t0))s $(echo "$out" | grep -m1 'tier=' ) $(echo "$out" | grep -c 'KNOWN-FINDING') known"
  [ $rc -ne 0 ] && echo "$out" | tail -5
done
