#!/usr/bin/env python3
"""Compare a junit xml of the baseline test command with BASELINE.json stable_pass."""
import json, sys
import xml.etree.ElementTree as ET
b = json.load(open('/root/.vp/BASELINE.json'))
stable = set(b['stable_pass'])
passed = set()
for tc in ET.parse(sys.argv[1]).getroot().iter('testcase'):
    bad = any(ch.tag in ('failure', 'error', 'skipped') for ch in tc)
    if not bad:
        passed.add('%s::%s' % (tc.get('classname'), tc.get('name')))
missing = sorted(stable - passed)
print('stable', len(stable), 'passed now', len(passed), 'stable tests not passing now', len(missing))
for m in missing[:40]:
    print('  ', m)
